/* mvsim_tsan.c -- build flavour "mem": the library objects are compiled with -fsanitize=thread, but instead of the
 * ThreadSanitizer runtime this file provides the __tsan_* entry points.  Every load and store of library code that
 * does not hit the current stack becomes a (sampled) schedule point of the simulator, so interleavings INSIDE code
 * that has no explicit hook -- e.g. the read-modify-write of a plain "counter++" a change newly made shared -- are
 * explored as well.  The atomic entry points simply perform the operation (they are preceded by an explicit
 * MYTH_VS_ATOMIC point already).  Compiled WITHOUT -fsanitize=thread. */
#include <stdint.h>
#include <stddef.h>
#include "mvsim.h"

void mvsim_mem_point(const void *addr, const void *sp);   /* mvsim.c: skips accesses to the running context's own stack */

static inline __attribute__((always_inline)) void mp(const void *addr) {
  char here;
  mvsim_mem_point(addr, &here);
}
void __tsan_init(void) {}
void __tsan_func_entry(void *pc) { (void)pc; }
void __tsan_func_exit(void) {}
#define RW(n) void __tsan_read##n(void *a) { mp(a); } void __tsan_write##n(void *a) { mp(a); } \
              void __tsan_unaligned_read##n(void *a) { mp(a); } void __tsan_unaligned_write##n(void *a) { mp(a); }
RW(1) RW(2) RW(4) RW(8) RW(16)
void __tsan_read_range(void *a, unsigned long n) { (void)n; mp(a); }
void __tsan_write_range(void *a, unsigned long n) { (void)n; mp(a); }
void __tsan_vptr_update(void **p, void *v) { (void)p; (void)v; }
void __tsan_vptr_read(void **p) { (void)p; }
void __tsan_atomic_thread_fence(int mo) { (void)mo; __atomic_thread_fence(__ATOMIC_SEQ_CST); }
void __tsan_atomic_signal_fence(int mo) { (void)mo; __atomic_signal_fence(__ATOMIC_SEQ_CST); }
#define ATOMICS(bits, T) \
  T __tsan_atomic##bits##_load(const volatile T *a, int mo) { (void)mo; return __atomic_load_n(a, __ATOMIC_SEQ_CST); } \
  void __tsan_atomic##bits##_store(volatile T *a, T v, int mo) { (void)mo; __atomic_store_n(a, v, __ATOMIC_SEQ_CST); } \
  T __tsan_atomic##bits##_exchange(volatile T *a, T v, int mo) { (void)mo; return __atomic_exchange_n(a, v, __ATOMIC_SEQ_CST); } \
  T __tsan_atomic##bits##_fetch_add(volatile T *a, T v, int mo) { (void)mo; return __atomic_fetch_add(a, v, __ATOMIC_SEQ_CST); } \
  T __tsan_atomic##bits##_fetch_sub(volatile T *a, T v, int mo) { (void)mo; return __atomic_fetch_sub(a, v, __ATOMIC_SEQ_CST); } \
  T __tsan_atomic##bits##_fetch_and(volatile T *a, T v, int mo) { (void)mo; return __atomic_fetch_and(a, v, __ATOMIC_SEQ_CST); } \
  T __tsan_atomic##bits##_fetch_or(volatile T *a, T v, int mo) { (void)mo; return __atomic_fetch_or(a, v, __ATOMIC_SEQ_CST); } \
  T __tsan_atomic##bits##_fetch_xor(volatile T *a, T v, int mo) { (void)mo; return __atomic_fetch_xor(a, v, __ATOMIC_SEQ_CST); } \
  T __tsan_atomic##bits##_fetch_nand(volatile T *a, T v, int mo) { (void)mo; return __atomic_fetch_nand(a, v, __ATOMIC_SEQ_CST); } \
  int __tsan_atomic##bits##_compare_exchange_strong(volatile T *a, T *c, T v, int mo, int fmo) { (void)mo; (void)fmo; return __atomic_compare_exchange_n(a, c, v, 0, __ATOMIC_SEQ_CST, __ATOMIC_SEQ_CST); } \
  int __tsan_atomic##bits##_compare_exchange_weak(volatile T *a, T *c, T v, int mo, int fmo) { (void)mo; (void)fmo; return __atomic_compare_exchange_n(a, c, v, 0, __ATOMIC_SEQ_CST, __ATOMIC_SEQ_CST); } \
  T __tsan_atomic##bits##_compare_exchange_val(volatile T *a, T c, T v, int mo, int fmo) { (void)mo; (void)fmo; __atomic_compare_exchange_n(a, &c, v, 0, __ATOMIC_SEQ_CST, __ATOMIC_SEQ_CST); return c; }
ATOMICS(8, char) ATOMICS(16, short) ATOMICS(32, int) ATOMICS(64, long)
