/* mvsim_lib.c -- the few things the runtime needs to know about library internals.
 * Compiled with the library's own include paths and flags. */
#include "myth/myth.h"
#include "myth_config.h"
#include "myth_thread.h"
#include "myth_worker.h"
#include "myth_init.h"
#include <stddef.h>

int mvsim_th_status(const void *th) { return (int)((const struct myth_thread *)th)->status; }
void **mvsim_th_result_ptr(void *th) { return &((struct myth_thread *)th)->result; }
void *mvsim_th_stack(const void *th) { return ((const struct myth_thread *)th)->stack; }
int mvsim_th_detached(const void *th) { return ((const struct myth_thread *)th)->detached; }
size_t mvsim_th_sizeof(void) { return sizeof(struct myth_thread); }
int mvsim_lib_nworkers(void) { return g_attr.n_workers; }
int mvsim_lib_queue_len(int rank) { return g_envs[rank].runnable_q.top - g_envs[rank].runnable_q.base; }
int mvsim_lib_rank(void) { return g_worker_rank; }
void mvsim_lib_set_rank(int r) { g_worker_rank = r; }
int mvsim_lib_all_queues_at_base0(void) {
  if (!g_envs) return 0;
  for (int i = 0; i < g_attr.n_workers; i++)
    if (g_envs[i].runnable_q.base != 0 || g_envs[i].runnable_q.top != 0) return 0;
  return 1;
}

/* flavour "mem": the workers' scheduler stacks (malloc'ed by myth_worker_start).  Called ONLY from the start-up /
   shut-down barrier hook, when g_envs is certainly valid (myth_fini frees it without clearing the pointer). */
int mvsim_lib_sched_stacks(unsigned long *lo, unsigned long *hi, int max) {
  int n = 0;
  if (!g_envs) return 0;
  for (int i = 0; i < g_attr.n_workers && n < max; i++) {
    unsigned long b = (unsigned long)g_envs[i].sched.stack;
    if (b) { lo[n] = b; hi[n] = b + MYTH_SCHED_STACK_SIZE; n++; }
  }
  return n;
}
