/* mvsim.c -- deterministic simulator runtime (see mvsim.h, DESIGN.md section 2) */
#define _GNU_SOURCE
#include <stdlib.h>
#include <string.h>
#include <stdarg.h>
#include <signal.h>
#include <unistd.h>
#include <errno.h>
#include <sys/mman.h>
#include <sys/time.h>
#include <ucontext.h>

#include "mvsim.h"
#define MYTH_VERIF 1
#include "myth_verif.h"

/* ------------------------------------------------------------------ */
/* PRNG                                                                */
/* ------------------------------------------------------------------ */
uint64_t mvsim_splitmix(uint64_t *x) {
  uint64_t z = (*x += 0x9e3779b97f4a7c15ULL);
  z = (z ^ (z >> 30)) * 0xbf58476d1ce4e5b9ULL;
  z = (z ^ (z >> 27)) * 0x94d049bb133111ebULL;
  return z ^ (z >> 31);
}
void mvsim_rng_seed(mvsim_rng *r, uint64_t seed, uint64_t salt) {
  uint64_t x = seed ^ (salt * 0xd1342543de82ef95ULL);
  for (int i = 0; i < 4; i++) r->s[i] = mvsim_splitmix(&x);
}
static inline uint64_t rotl(uint64_t x, int k) { return (x << k) | (x >> (64 - k)); }
uint64_t mvsim_rng_next(mvsim_rng *r) {
  uint64_t *s = r->s;
  uint64_t result = rotl(s[1] * 5, 7) * 9;
  uint64_t t = s[1] << 17;
  s[2] ^= s[0]; s[3] ^= s[1]; s[1] ^= s[2]; s[0] ^= s[3];
  s[2] ^= t; s[3] = rotl(s[3], 45);
  return result;
}
uint64_t mvsim_rng_below(mvsim_rng *r, uint64_t n) {
  if (n <= 1) return 0;
  return mvsim_rng_next(r) % n;   /* bias irrelevant here */
}

/* ------------------------------------------------------------------ */
/* workers (coroutines)                                                */
/* ------------------------------------------------------------------ */
enum { W_UNUSED = 0, W_READY, W_SPIN, W_BARRIER, W_JOINW, W_QUIESCE, W_DONE };
enum { RQ_POINT = 1, RQ_SPIN, RQ_BARRIER, RQ_JOINW, RQ_EXIT, RQ_QUIESCE, RQ_CLOCK, RQ_FUNC = 8 };

typedef struct worker {
  void *rsp;                 /* MUST be first: used by mvsim_switch.S */
  int id;
  int state;
  int dirty;
  int saved_rank;
  int last_kind, last_site;
  uint64_t spin_seen;
  uint64_t obs;              /* g_progress when this worker last resumed from a non-FUNC hook */
  int req_kind;              /* kind of the hook the worker is parked in */
  void *barrier;
  int join_target;
  long prio;
  uint64_t stalled_until;
  void *(*fn)(void *);
  void *arg;
  char *stack;
  size_t stack_size;
} worker;

struct mvreq {
  int kind;
  int site;
  void *p;
  long n;
};

#define NSLOTS MVSIM_MAX_WORKERS
#define NATIVE_BASE 64
static worker g_w[NSLOTS];
worker *mvsim_cur;                 /* used by the asm */
void *mvsim_simstack_top;          /* used by the asm */
static char *g_simstack;
#define SIMSTACK_SIZE (512 * 1024)
#define WORKER_STACK_SIZE (512 * 1024)

void mvsim_enter(struct mvreq *r);
worker *mvsim_dispatch(struct mvreq *r);

static int g_active;
int mvsim_check_alignment = 1;
static mvsim_runcfg g_cfg;
static mvsim_runstats g_st;
static uint64_t g_progress;
static uint64_t g_sweeps;
static uint64_t g_progress_at_sweep;
static int g_drain;
static int g_nspawned, g_ndone;
static mvsim_rng g_rng_sched, g_rng_rand, g_rng_clock, g_rng_poison;
static uint64_t g_clock_ns, g_clock_last_read_step, g_clock_last_value, g_clock_start_ns;
static mvsim_probe_cb_t g_probe_cb;
static int g_rr_left;
static uint64_t g_func_steps, g_mem_ctr;
static uint64_t g_vtsc, g_vtsc_delta, g_vtsc_last_step;
static volatile uint64_t g_wd_last; static volatile int g_wd_idle, g_wd_ticks;
int mvsim_lib_sched_stacks(unsigned long *lo, unsigned long *hi, int max);
static unsigned long g_ss_lo[NSLOTS], g_ss_hi[NSLOTS]; static int g_ss_n, g_envs_valid, g_exit_seen;   /* scheduler stacks, snapshot taken at the barrier hooks */
static uintptr_t c_lo, c_hi;   /* flavour mem: cached own-stack interval; dropped whenever a stack is handed out or released */
static int g_bug_permille;
static uint64_t g_pct_points[8];
static long g_pct_low;
static unsigned char g_pairmap[160 * 160 / 8 + 1];

/* ring buffer with the most recent events, dumped into the replay file for diagnosis */
#define RING 2048
static struct { uint64_t step; short wid, kind, site; const void *p; } g_ring[RING];
static uint64_t g_ring_n;
/* and the most recent events of each worker separately (a spinning or parked worker's last steps fall out of the global ring) */
#define WRING 96
static struct { uint64_t step; short kind, site; const void *p; } g_wring[MVSIM_MAX_WORKERS][WRING];
static uint64_t g_wring_n[MVSIM_MAX_WORKERS];
static inline void ring_add(int wid, int kind, int site, const void *p) {
  unsigned i = (unsigned)(g_ring_n++ % RING);
  g_ring[i].step = g_st.steps; g_ring[i].wid = (short)wid; g_ring[i].kind = (short)kind; g_ring[i].site = (short)site; g_ring[i].p = p;
  if (wid >= 0 && wid < MVSIM_MAX_WORKERS) {
    unsigned j = (unsigned)(g_wring_n[wid]++ % WRING);
    g_wring[wid][j].step = g_st.steps; g_wring[wid][j].kind = (short)kind; g_wring[wid][j].site = (short)site; g_wring[wid][j].p = p;
  }
}

/* set while the simulator itself may call instrumented library code (the wrapped malloc of the
   LD flavour): function-granularity points are suppressed then */
static volatile int g_in_dispatch;

/* decision / random / clock traces (for the replay file) */
typedef struct { long *v; int n, cap; } lvec;
static void lv_push(lvec *a, long x) {
  if (a->n == a->cap) {
    a->cap = a->cap ? a->cap * 2 : 1024;
    int b = g_in_dispatch; g_in_dispatch = 1;
    a->v = realloc(a->v, sizeof(long) * a->cap);
    g_in_dispatch = b;
    if (!a->v) { fprintf(stderr, "mvsim: out of memory\n"); _exit(4); }
  }
  a->v[a->n++] = x;
}
static lvec g_tr_sched;  /* RLE: worker, count, worker, count ... */
static lvec g_tr_rand;
static lvec g_tr_clock;

/* replay input */
static int g_replay;
static int g_replay_diverged;
static lvec g_rp_sched, g_rp_rand, g_rp_clock;
static int g_rp_sched_i; static long g_rp_sched_left;
static int g_rp_rand_i, g_rp_clock_i;
static char *g_rp_text;

/* context for reports */
static char g_ctx_harness[64] = "?", g_ctx_class[64] = "?", g_ctx_outdir[512] = "";
static uint64_t g_ctx_seed; static long g_ctx_run;
static mvsim_plan_dumper_t g_plan_dumper;

/* read-only sites: the code after such a point performs no shared write before the next point.
   The explicit points in front of a CAS are read-only since every __sync builtin is a point itself. */
static const unsigned char site_ro[MYTH_VS_N_SITES] = {
  [MYTH_VS_Q_POP_QC] = 1, [MYTH_VS_Q_TAKE_QC] = 1, [MYTH_VS_Q_PEEK_QC] = 1,
  [MYTH_VS_SPIN_TRY] = 1, [MYTH_VS_MUTEX_CAS] = 1, [MYTH_VS_BARRIER_CAS] = 1, [MYTH_VS_JC_CAS] = 1, [MYTH_VS_ONCE_CAS] = 1,
  [MYTH_VS_SSTACK_CAS] = 1, [MYTH_VS_KEY_CAS] = 1, [MYTH_VS_INIT_CAS] = 1,
  [MYTH_VS_SPIN_UNLOCKED] = 1,
};

int mvsim_active(void) { return g_active; }
uint64_t mvsim_step(void) { return g_st.steps; }
int mvsim_cur_worker(void) { return mvsim_cur ? mvsim_cur->id : -1; }
uint64_t mvsim_now_ns(void) { return g_clock_ns + (g_st.steps - g_clock_last_read_step) * g_cfg.clk_step_ns; }
void mvsim_now_ts(struct timespec *ts) {
  uint64_t t = mvsim_now_ns();
  ts->tv_sec = (time_t)(t / 1000000000ULL); ts->tv_nsec = (long)(t % 1000000000ULL);
}
uint64_t mvsim_last_clock_ns(void) { return g_clock_last_value; }
uint64_t mvsim_clock_reads(void) { return g_st.clock_reads; }
uint64_t mvsim_probe_count(int site) { return (site >= 0 && site < 160) ? g_st.probe[site] : 0; }
int mvsim_n_workers_done(void) { return g_ndone; }
int mvsim_n_workers_spawned(void) { return g_nspawned; }
mvsim_rng *mvsim_poison_rng(void) { return &g_rng_poison; }
void mvsim_set_probe_cb(mvsim_probe_cb_t cb) { g_probe_cb = cb; }
int mvsim_replay_active(void) { return g_replay; }
int mvsim_replay_diverged(void) { return g_replay_diverged; }

/* ------------------------------------------------------------------ */
/* violation reporting                                                 */
/* ------------------------------------------------------------------ */
void mvsim_set_context(const char *harness, const char *wclass, uint64_t base_seed, long run_index,
                       const char *outdir) {
  snprintf(g_ctx_harness, sizeof g_ctx_harness, "%s", harness);
  snprintf(g_ctx_class, sizeof g_ctx_class, "%s", wclass);
  g_ctx_seed = base_seed; g_ctx_run = run_index;
  snprintf(g_ctx_outdir, sizeof g_ctx_outdir, "%s", outdir ? outdir : "");
}
void mvsim_set_plan_dumper(mvsim_plan_dumper_t d) { g_plan_dumper = d; }

static void json_str(FILE *f, const char *s) {
  fputc('"', f);
  for (; *s; s++) {
    unsigned char c = (unsigned char)*s;
    if (c == '"' || c == '\\') { fputc('\\', f); fputc(c, f); }
    else if (c < 32) fprintf(f, "\\u%04x", c);
    else fputc(c, f);
  }
  fputc('"', f);
}
static void dump_lvec(FILE *f, const char *name, lvec *a) {
  fprintf(f, " \"%s\": [", name);
  for (int i = 0; i < a->n; i++) fprintf(f, "%s%ld", i ? "," : "", a->v[i]);
  fprintf(f, "],\n");
}
static void cfg_dump(FILE *f) {
  const mvsim_runcfg *c = &g_cfg;
  fprintf(f, " \"cfg\": [%llu,%d,%d,%d,%llu,%d,%llu,%d,%llu,%llu,%d,%d,%llu,%llu,%d,%d,%llu,%llu,%llu],\n",
          (unsigned long long)c->run_seed, c->strategy, c->switch_permille, c->pct_depth,
          (unsigned long long)c->pct_len, c->rr_quantum, (unsigned long long)c->stall_len, c->stall_permille,
          (unsigned long long)c->budget1, (unsigned long long)c->budget2, c->queue_size, c->poison,
          (unsigned long long)c->clk_step_ns, (unsigned long long)c->clk_read_ns, c->clk_zero_permille,
          c->clk_jump_permille, (unsigned long long)c->clk_jump_ns, (unsigned long long)c->clk_epoch_s,
          (unsigned long long)c->clk_epoch_ns);
}
int mvsim_replay_write(const char *path, const char *vclass, const char *vmsg) {
  FILE *f = fopen(path, "w");
  if (!f) return -1;
  fprintf(f, "{\n \"format\": \"mvsim-replay-1\",\n \"harness\": "); json_str(f, g_ctx_harness);
  fprintf(f, ",\n \"class\": "); json_str(f, g_ctx_class);
  fprintf(f, ",\n \"base_seed\": %llu,\n \"run_index\": %ld,\n \"run_seed\": %llu,\n",
          (unsigned long long)g_ctx_seed, g_ctx_run, (unsigned long long)g_cfg.run_seed);
  fprintf(f, " \"violation_class\": "); json_str(f, vclass ? vclass : "");
  fprintf(f, ",\n \"violation_msg\": "); json_str(f, vmsg ? vmsg : "");
  fprintf(f, ",\n \"steps\": %llu,\n", (unsigned long long)g_st.steps);
  cfg_dump(f);
  if (g_plan_dumper) g_plan_dumper(f);
  dump_lvec(f, "sched_rle", &g_tr_sched);
  dump_lvec(f, "rand", &g_tr_rand);
  dump_lvec(f, "clock", &g_tr_clock);
  fprintf(f, " \"trace_tail_format\": \"step worker kind(1=point,2=spin,3=barrier,4=joinw,5=exit,6=quiesce,7=clock,0=probe) site pointer\",\n \"trace_tail\": [");
  {
    uint64_t n = g_ring_n < RING ? g_ring_n : RING;
    for (uint64_t k = 0; k < n; k++) {
      unsigned i = (unsigned)((g_ring_n - n + k) % RING);
      fprintf(f, "%s\"%llu w%d k%d s%d %p\"", k ? "," : "", (unsigned long long)g_ring[i].step, g_ring[i].wid, g_ring[i].kind, g_ring[i].site, g_ring[i].p);
    }
  }
  fprintf(f, "],\n \"trace_per_worker\": {");
  {
    int first = 1;
    for (int w = 0; w < MVSIM_MAX_WORKERS; w++) {
      if (!g_wring_n[w]) continue;
      uint64_t n = g_wring_n[w] < WRING ? g_wring_n[w] : WRING;
      fprintf(f, "%s\n  \"w%d\": [", first ? "" : ",", w); first = 0;
      for (uint64_t k = 0; k < n; k++) {
        unsigned i = (unsigned)((g_wring_n[w] - n + k) % WRING);
        fprintf(f, "%s\"%llu k%d s%d %p\"", k ? "," : "", (unsigned long long)g_wring[w][i].step, g_wring[w][i].kind, g_wring[w][i].site, g_wring[w][i].p);
      }
      fprintf(f, "]");
    }
  }
  fprintf(f, "},\n \"end\": 1\n}\n");
  fclose(f);
  return 0;
}

static void sanitize(char *s) { for (; *s; s++) if (*s == '\n' || *s == '\r') *s = ' '; }

void mvsim_violation(const char *cls, const char *fmt, ...) {
  static int in_violation;
  char msg[1024];
  va_list ap;
  va_start(ap, fmt);
  vsnprintf(msg, sizeof msg, fmt, ap);
  va_end(ap);
  sanitize(msg);
  g_active = 0;
  if (in_violation++) _exit(10);
  char path[700] = "";
  if (g_ctx_outdir[0]) {
    snprintf(path, sizeof path, "%s/%s-%s-%llu-%ld.json", g_ctx_outdir, g_ctx_harness, g_ctx_class,
             (unsigned long long)g_ctx_seed, g_ctx_run);
    if (mvsim_replay_write(path, cls, msg) != 0) path[0] = 0;
  }
  printf("VIOL harness=%s wclass=%s seed=%llu run=%ld vclass=%s steps=%llu site=%d replay=%s msg=%s\n",
         g_ctx_harness, g_ctx_class, (unsigned long long)g_ctx_seed, g_ctx_run, cls,
         (unsigned long long)g_st.steps, mvsim_cur ? mvsim_cur->last_site : -1, path[0] ? path : "-", msg);
  fflush(stdout);
  _exit(10);
}

/* crash handling: a fatal signal inside a simulated run is a violation (class CRASH) */
static char g_altstack[64 * 1024];
static void crash_handler(int sig, siginfo_t *si, void *uc) {
  if (sig == SIGPROF) {
    /* periodic CPU-time tick (10 s).  Only a run that reaches NO hook at all for three ticks in a row is a violation
       (code looping outside every schedule point); a run that keeps reaching hooks but is slow in real time decides
       nothing -- it is abandoned and counted, never reported (real time must not produce verdicts). */
    if (!g_active) return;
    uint64_t now = g_st.steps;
    if (now == g_wd_last) { if (++g_wd_idle >= 3) mvsim_violation("STUCK", "no hook reached for 30 s of CPU time (run loops outside every schedule point)"); }
    else { g_wd_idle = 0; g_wd_last = now; }
    if (++g_wd_ticks >= 9 && g_wd_idle == 0) {
      printf("SLOW harness=%s wclass=%s seed=%llu run=%ld steps=%llu\n", g_ctx_harness, g_ctx_class, (unsigned long long)g_ctx_seed, g_ctx_run, (unsigned long long)g_st.steps);
      fflush(stdout);
      _exit(11);
    }
    return;
  }
  ucontext_t *u = (ucontext_t *)uc;
  mvsim_violation("CRASH", "signal %d (%s) addr=%p rip=%#llx rsp=%#llx", sig, strsignal(sig), si ? si->si_addr : 0,
                  u ? (unsigned long long)u->uc_mcontext.gregs[REG_RIP] : 0ULL, u ? (unsigned long long)u->uc_mcontext.gregs[REG_RSP] : 0ULL);
}
static void install_handlers(void) {
  stack_t ss; ss.ss_sp = g_altstack; ss.ss_size = sizeof g_altstack; ss.ss_flags = 0;
  sigaltstack(&ss, 0);
  struct sigaction sa; memset(&sa, 0, sizeof sa);
  sa.sa_sigaction = crash_handler; sa.sa_flags = SA_SIGINFO | SA_ONSTACK | SA_NODEFER;
  sigemptyset(&sa.sa_mask);
  int sigs[] = { SIGSEGV, SIGBUS, SIGABRT, SIGFPE, SIGILL, SIGPROF };
  for (unsigned i = 0; i < sizeof sigs / sizeof sigs[0]; i++) sigaction(sigs[i], &sa, 0);
}
static void watchdog_arm(int seconds) {
  struct itimerval tv; memset(&tv, 0, sizeof tv);
  tv.it_value.tv_sec = seconds; tv.it_interval.tv_sec = seconds;
  setitimer(ITIMER_PROF, &tv, 0);
}

/* ------------------------------------------------------------------ */
/* run control                                                         */
/* ------------------------------------------------------------------ */
void mvsim_global_init(void) {
  if (g_simstack) return;
  g_simstack = mmap(0, SIMSTACK_SIZE, PROT_READ | PROT_WRITE, MAP_PRIVATE | MAP_ANONYMOUS, -1, 0);
  if (g_simstack == MAP_FAILED) { perror("mmap"); _exit(4); }
  mvsim_simstack_top = (void *)(((uintptr_t)g_simstack + SIMSTACK_SIZE - 64) & ~(uintptr_t)15);
  /* map every worker stack now so that the layout of later mappings does not depend on which
     runs came before in this process */
  for (int i = 0; i < NSLOTS; i++) {
    g_w[i].stack_size = WORKER_STACK_SIZE;
    g_w[i].stack = mmap(0, WORKER_STACK_SIZE, PROT_READ | PROT_WRITE, MAP_PRIVATE | MAP_ANONYMOUS | MAP_NORESERVE, -1, 0);
    if (g_w[i].stack == MAP_FAILED) { perror("mmap worker stack"); _exit(4); }
  }
  install_handlers();
  setvbuf(stdout, 0, _IOLBF, 0);
}

void mvsim_default_cfg(mvsim_runcfg *c, uint64_t run_seed) {
  mvsim_rng r; mvsim_rng_seed(&r, run_seed, 0x6b6e6f62 /* "knob" */);
  memset(c, 0, sizeof *c);
  c->run_seed = run_seed;
  c->strategy = (int)mvsim_rng_below(&r, MVS_N_STRATEGIES);
  static const int perm[] = { 5, 10, 20, 50, 100, 200, 350, 500 };
  c->switch_permille = perm[mvsim_rng_below(&r, 8)];
  c->pct_depth = 1 + (int)mvsim_rng_below(&r, 5);
  c->pct_len = 200 << mvsim_rng_below(&r, 6);
  c->rr_quantum = 1 + (int)mvsim_rng_below(&r, 40);
  c->stall_len = 100ULL << mvsim_rng_below(&r, 7);
  c->stall_permille = 1 + (int)mvsim_rng_below(&r, 20);
  c->budget1 = 400000; c->budget2 = 4000000;
  c->queue_size = 0;
  c->poison = (int)mvsim_rng_below(&r, 2);
  c->clk_step_ns = mvsim_rng_below(&r, 3) == 0 ? 0 : mvsim_rng_below(&r, 200);
  c->clk_read_ns = 1ULL << mvsim_rng_below(&r, 24);
  c->clk_zero_permille = 100 + (int)mvsim_rng_below(&r, 400);
  c->clk_jump_permille = (int)mvsim_rng_below(&r, 30);
  c->clk_jump_ns = 1000000000ULL * (1 + mvsim_rng_below(&r, 100));
  c->clk_epoch_s = 1700000000ULL + mvsim_rng_below(&r, 1000);
  switch (mvsim_rng_below(&r, 3)) {
    case 0: c->clk_epoch_ns = 0; break;
    case 1: c->clk_epoch_ns = 999999999ULL - mvsim_rng_below(&r, 1000); break;
    default: c->clk_epoch_ns = mvsim_rng_below(&r, 1000000000ULL);
  }
}

static void ledger_reset(void);

/* the library (or the program under test) calling exit() in the middle of a simulated run is an observable
   failure of that run (e.g. "myth_mutex_unlock : called on unlocked mutex, abort." + exit(1)), not an
   infrastructure problem: report it like a crash, with a replay file */
static void exit_during_run(void) {
  if (g_active) mvsim_violation("EXIT", "the process called exit() in the middle of a simulated run (the library gave up, see its message on stderr)");
}
void mvsim_begin_run(const mvsim_runcfg *c) {
  { static int reg; if (!reg) { reg = 1; atexit(exit_during_run); } }
  mvsim_global_init();
  g_cfg = *c;
  memset(&g_st, 0, sizeof g_st);
  memset(g_pairmap, 0, sizeof g_pairmap);
  for (int i = 0; i < NSLOTS; i++) { g_w[i].state = W_UNUSED; g_w[i].id = i; }
  g_vtsc = 1000000; g_vtsc_delta = 64; g_vtsc_last_step = 0; g_wd_last = ~0ULL; g_wd_idle = 0; g_wd_ticks = 0;
  g_func_steps = 0; g_mem_ctr = 0; c_lo = c_hi = 0; g_ss_n = 0; g_envs_valid = 0; g_exit_seen = 0; g_progress = 1; g_sweeps = 0; g_progress_at_sweep = 0; g_drain = 0; g_nspawned = 0; g_ndone = 0;
  g_rr_left = 0;
  mvsim_rng_seed(&g_rng_sched, c->run_seed, 1);
  mvsim_rng_seed(&g_rng_rand, c->run_seed, 2);
  { mvsim_rng t; mvsim_rng_seed(&t, c->run_seed, 7); uint64_t x = mvsim_rng_below(&t, 1000);
    g_bug_permille = x < 500 ? 0 : x < 700 ? 10 : x < 900 ? 50 : 200; }
  mvsim_rng_seed(&g_rng_clock, c->run_seed, 3);
  mvsim_rng_seed(&g_rng_poison, c->run_seed, 4);
  g_clock_ns = c->clk_epoch_s * 1000000000ULL + c->clk_epoch_ns;
  g_clock_start_ns = g_clock_ns; g_clock_last_read_step = 0; g_clock_last_value = g_clock_ns;
  for (int i = 0; i < 8; i++) g_pct_points[i] = c->pct_len ? mvsim_rng_below(&g_rng_sched, c->pct_len) : 0;
  g_pct_low = -1;
  for (int i = 0; i < NSLOTS; i++) g_w[i].prio = (long)(mvsim_rng_next(&g_rng_sched) >> 2);
  g_tr_sched.n = g_tr_rand.n = g_tr_clock.n = 0; g_ring_n = 0; memset(g_wring_n, 0, sizeof g_wring_n);
  g_rp_sched_i = 0; g_rp_sched_left = 0; g_rp_rand_i = 0; g_rp_clock_i = 0; g_replay_diverged = 0;
  worker *w = &g_w[0];
  w->state = W_READY; w->dirty = 1; w->saved_rank = mvsim_lib_rank(); w->last_kind = 0; w->last_site = 0;
  w->stalled_until = 0; w->req_kind = 0; w->obs = g_progress;
  mvsim_cur = w;
  g_st.max_workers = 1;
  g_st.signature = 0xcbf29ce484222325ULL;
  ledger_reset();
  watchdog_arm(10);
  g_active = 1;
}

static int popcount_map(void) {
  int n = 0;
  for (unsigned i = 0; i < sizeof g_pairmap; i++) n += __builtin_popcount(g_pairmap[i]);
  return n;
}

void mvsim_end_run(mvsim_runstats *out) {
  g_active = 0;
  watchdog_arm(0);
  g_st.virt_ns = mvsim_now_ns() - g_clock_start_ns;
  g_st.switch_pairs = popcount_map();
  g_st.drained = g_drain;
  if (out) *out = g_st;
}

/* ------------------------------------------------------------------ */
/* scheduling                                                          */
/* ------------------------------------------------------------------ */
static inline int w_enabled(const worker *w) {
  return w->state == W_READY || (w->state == W_SPIN && w->spin_seen != g_progress);
}
static inline void sig_mix(uint64_t x) {
  g_st.signature = (g_st.signature ^ x) * 0x100000001b3ULL;
}
static void tr_sched_push(int id) {
  if (g_tr_sched.n >= 2 && g_tr_sched.v[g_tr_sched.n - 2] == id) g_tr_sched.v[g_tr_sched.n - 1]++;
  else { lv_push(&g_tr_sched, id); lv_push(&g_tr_sched, 1); }
}

static void hang(const char *why) {
  char buf[512]; int o = 0;
  for (int i = 0; i < NSLOTS && o < 440; i++) {
    worker *w = &g_w[i];
    if (w->state == W_UNUSED) continue;
    o += snprintf(buf + o, sizeof buf - o, " w%d:%s@%d", i,
                  w->state == W_READY ? "ready" : w->state == W_SPIN ? "spin" : w->state == W_BARRIER ? "barrier"
                  : w->state == W_JOINW ? "joinw" : w->state == W_QUIESCE ? "quiesce" : "done", w->last_site);
  }
  /* precise class for one known livelock: myth_fini migrates the main thread back with
     myth_queue_trypass, which refuses while the target queue's base index is 0 */
  if (g_st.probe[MYTH_VP_MAIN_MIGRATE_BACK] > 0 && mvsim_lib_all_queues_at_base0())
    mvsim_violation("HANG-FINI-PASS-REFUSED", "myth_fini cannot hand the main thread to any worker: every run queue is empty with base index 0, so myth_queue_trypass refuses forever (%s):%s", why, buf);
  mvsim_violation("HANG", "%s after %llu steps:%s", why, (unsigned long long)g_st.steps, buf);
}

static worker *choose(worker *cur) {
  int en[NSLOTS], n = 0, nst[NSLOTS], ns = 0;
  worker *quiescer = 0;
  for (int i = 0; i < NSLOTS; i++) {
    worker *w = &g_w[i];
    if (w->state == W_UNUSED || w->state == W_DONE) continue;
    if (w->state == W_QUIESCE) { quiescer = w; continue; }
    if (!w_enabled(w)) continue;
    if (w->stalled_until > g_st.steps) nst[ns++] = i; else en[n++] = i;
  }
  if (n == 0 && ns > 0) {      /* only stalled workers could run: end the stalls */
    for (int i = 0; i < ns; i++) { g_w[nst[i]].stalled_until = 0; en[n++] = nst[i]; }
  }
  if (n == 0) {
    if (quiescer) { quiescer->state = W_READY; return quiescer; }
    /* nobody can run.  Confirmation sweep: let every spinner re-check once. */
    int spinners = 0;
    for (int i = 0; i < NSLOTS; i++) if (g_w[i].state == W_SPIN) spinners++;
    if (spinners == 0) hang("deadlock: no worker can run");
    if (g_progress_at_sweep == g_progress) g_sweeps++; else { g_sweeps = 1; g_progress_at_sweep = g_progress; }
    if (g_sweeps > 3) hang("deadlock: all workers spin/idle without progress");
    for (int i = 0; i < NSLOTS; i++)
      if (g_w[i].state == W_SPIN) { g_w[i].spin_seen = ~0ULL; en[n++] = i; }
  }
  int pick = -1;
  int cur_en = 0;
  for (int i = 0; i < n; i++) if (en[i] == cur->id) cur_en = 1;
  if (g_replay) {
    long want = -1;
    while (g_rp_sched_left == 0 && g_rp_sched_i + 1 < g_rp_sched.n) {
      want = g_rp_sched.v[g_rp_sched_i]; g_rp_sched_left = g_rp_sched.v[g_rp_sched_i + 1]; g_rp_sched_i += 2;
    }
    if (g_rp_sched_left > 0) { want = g_rp_sched.v[g_rp_sched_i - 2]; g_rp_sched_left--; }
    for (int i = 0; i < n; i++) if (en[i] == want) pick = (int)want;
    if (pick < 0) g_replay_diverged = 1;   /* recorded decisions exhausted or not applicable: continue FAIRLY (below), never
                                              "keep running the current worker" -- that would turn any polling loop into a hang */
  }
  if (pick >= 0) ;
  else if (g_drain || g_replay) {
    if (cur_en && g_rr_left > 0) { g_rr_left--; pick = cur->id; }
    else {
      pick = en[0];
      for (int i = 0; i < n; i++) if (en[i] > cur->id) { pick = en[i]; break; }
      /* random quantum: a fixed one can resonate with the period of a polling loop and
         always preempt it while it holds a spin lock, starving a spinner for ever */
      g_rr_left = 1 + (int)mvsim_rng_below(&g_rng_sched, 97);
    }
  } else switch (g_cfg.strategy) {
    case MVS_UNIFORM:
      pick = en[mvsim_rng_below(&g_rng_sched, n)];
      break;
    case MVS_STALL:
      if (mvsim_rng_below(&g_rng_sched, 10000) < (uint64_t)g_cfg.stall_permille) {
        /* start a stall of a random enabled worker (never stall everybody: handled above) */
        int v = en[mvsim_rng_below(&g_rng_sched, n)];
        g_w[v].stalled_until = g_st.steps + g_cfg.stall_len;
        if (g_cfg.stall_len >= 100) g_st.stalls++;
        if (n > 1) {           /* rebuild the enabled list without v */
          int m = 0; for (int i = 0; i < n; i++) if (en[i] != v) en[m++] = en[i];
          n = m; cur_en = 0; for (int i = 0; i < n; i++) if (en[i] == cur->id) cur_en = 1;
        }
      }
      /* fall through */
    case MVS_STICKY:
      if (cur_en && mvsim_rng_below(&g_rng_sched, 1000) >= (uint64_t)g_cfg.switch_permille) pick = cur->id;
      else if (n == 1) pick = en[0];
      else {
        do pick = en[mvsim_rng_below(&g_rng_sched, n)]; while (cur_en && pick == cur->id);
      }
      break;
    case MVS_PCT: {
      for (int k = 0; k < g_cfg.pct_depth && k < 8; k++)
        if (g_pct_points[k] == g_st.steps) cur->prio = g_pct_low--;
      long best = 0; pick = -1;
      for (int i = 0; i < n; i++) if (pick < 0 || g_w[en[i]].prio > best) { best = g_w[en[i]].prio; pick = en[i]; }
      break;
    }
    case MVS_RR:
    default:
      if (cur_en && g_rr_left > 0) { g_rr_left--; pick = cur->id; }
      else {
        pick = en[0];
        for (int i = 0; i < n; i++) if (en[i] > cur->id) { pick = en[i]; break; }
        g_rr_left = g_cfg.rr_quantum;
      }
      break;
  }
  worker *nx = &g_w[pick];
  if (nx != cur) {
    g_st.switches++;
    if (cur_en) {
      g_st.preemptions++;
      unsigned a = (unsigned)cur->last_site % 160, b = (unsigned)nx->last_site % 160;
      unsigned bit = a * 160 + b; g_pairmap[bit >> 3] |= (unsigned char)(1u << (bit & 7));
    }
  }
  tr_sched_push(pick);
  return nx;
}

static void release_waiters_of(int id) {
  for (int i = 0; i < NSLOTS; i++)
    if (g_w[i].state == W_JOINW && g_w[i].join_target == id) g_w[i].state = W_READY;
}

worker *mvsim_dispatch(struct mvreq *r) {
  worker *w = mvsim_cur;
  g_in_dispatch = 1;
  w->saved_rank = mvsim_lib_rank();
  g_st.steps++;
  if (r->site >= 0 && r->site < 160) g_st.probe[r->site]++;
  /* progress accounting (see DESIGN 2.2) */
  if (r->kind == RQ_SPIN && r->site == MYTH_VS_SPIN_LOOP && w->last_kind == RQ_POINT
      && (w->last_site == MYTH_VS_SPIN_TRY || w->last_site == MYTH_VS_ATOMIC))
    w->dirty = 0;  /* the CAS of this iteration failed: nothing was written */
  /* did anybody else make progress since this worker last resumed from a real point?  Only
     possible when function-granularity points let others run between an observation (a failed
     CAS, a flag read) and the spin hook that follows it. */
  int foreign = (g_progress != w->obs);
  if (r->kind != RQ_FUNC && w->dirty) { g_progress++; w->dirty = 0; }
  w->req_kind = r->kind;
  switch (r->kind) {
    case RQ_FUNC:
      w->state = W_READY;
      break;
    case RQ_POINT:
      if (!site_ro[r->site]) w->dirty = 1;
      w->state = W_READY;
      break;
    case RQ_CLOCK:
      w->state = W_READY;
      break;
    case RQ_SPIN:
      g_st.spins++;
      w->state = W_SPIN; w->spin_seen = foreign ? w->obs : g_progress;
      break;
    case RQ_BARRIER: {
      g_progress++;
      int cnt = 1;
      for (int i = 0; i < NSLOTS; i++) if (g_w[i].state == W_BARRIER && g_w[i].barrier == r->p) cnt++;
      if (cnt >= r->n) {
        for (int i = 0; i < NSLOTS; i++) if (g_w[i].state == W_BARRIER && g_w[i].barrier == r->p) g_w[i].state = W_READY;
        w->state = W_READY;
      } else { w->state = W_BARRIER; w->barrier = r->p; }
      w->dirty = 1;
      break;
    }
    case RQ_JOINW:
      if (g_w[r->n].state == W_DONE || g_w[r->n].state == W_UNUSED) w->state = W_READY;
      else { w->state = W_JOINW; w->join_target = (int)r->n; }
      break;
    case RQ_EXIT:
      g_progress++;
      w->state = W_DONE; if (w->id < NATIVE_BASE) g_ndone++;
      /* once every worker has stopped nothing runs on a scheduler stack any more, and myth_fini goes on to free
         the worker descriptors: take the last snapshot and stop looking at them */
      if (g_envs_valid && g_ndone >= g_nspawned) { g_ss_n = mvsim_lib_sched_stacks(g_ss_lo, g_ss_hi, NSLOTS); g_envs_valid = 0; }
      release_waiters_of(w->id);
      break;
    case RQ_QUIESCE:
      w->state = W_QUIESCE;
      break;
  }
  if (r->kind != RQ_FUNC) { w->last_kind = r->kind; w->last_site = r->site; }
  ring_add(w->id, r->kind, r->site, r->p);
  sig_mix(((uint64_t)w->id << 16) ^ (uint64_t)r->site ^ ((uint64_t)r->kind << 8));
  /* budgets are counted in real schedule points; function-granularity points (flavour fn) weigh a quarter,
     so that the same program has about the same budget in every build flavour */
  if (r->kind == RQ_FUNC) g_func_steps++;
  uint64_t bsteps = g_st.steps - g_func_steps + g_func_steps / 4;
  if (!g_drain && bsteps > g_cfg.budget1) { g_drain = 1; g_rr_left = 0; }
  if (bsteps > g_cfg.budget1 + g_cfg.budget2) hang("step budget exhausted under fair scheduling");
  worker *nx = choose(w);
  mvsim_cur = nx;
  if (nx->req_kind != RQ_FUNC) nx->obs = g_progress;
  mvsim_lib_set_rank(nx->saved_rank);
  g_in_dispatch = 0;
  return nx;
}

/* ------------------------------------------------------------------ */
/* hooks called by the library                                         */
/* ------------------------------------------------------------------ */
#define ALIGN_CHECK(site) do { \
    if (mvsim_check_alignment && (((uintptr_t)__builtin_frame_address(0)) & 15) != 0) \
      mvsim_violation("ALIGN", "stack not 16-byte aligned at hook site %d (frame %p)", site, __builtin_frame_address(0)); \
  } while (0)

void myth_verif_point(int site) {
  if (!g_active) return;
  if (site == MYTH_VS_EXIT_FLAG_WR) g_exit_seen = 1;
  else if (site == MYTH_VS_INIT_CAS && g_exit_seen) { g_exit_seen = 0; g_ss_n = 0; c_lo = c_hi = 0; }   /* a new initialisation in the same run */
  ALIGN_CHECK(site);
  struct mvreq r = { RQ_POINT, site, 0, 0 };
  mvsim_enter(&r);
}
void mvsim_user_point(void) { myth_verif_point(MYTH_VS_NONE); }
/* a user-level busy-wait iteration: the caller is not scheduled again before some other worker made progress */
void mvsim_user_spin(void) { myth_verif_spin(MYTH_VS_NONE); }

/* function-granularity schedule points (build flavour "fn": library compiled with
   -finstrument-functions).  They are scheduling decisions only: they neither count nor clear
   the "may have written" flag of the worker (see the progress accounting in mvsim_dispatch). */
void __cyg_profile_func_enter(void *fn, void *site) __attribute__((no_instrument_function));
void __cyg_profile_func_exit(void *fn, void *site) __attribute__((no_instrument_function));
void __cyg_profile_func_enter(void *fn, void *site) {
  (void)site;
  if (!g_active || g_in_dispatch) return;
  struct mvreq r = { RQ_FUNC, MYTH_VS_N_SITES + 1, fn, 0 };
  mvsim_enter(&r);
}
void __cyg_profile_func_exit(void *fn, void *site) {
  (void)site;
  if (!g_active || g_in_dispatch) return;
  struct mvreq r = { RQ_FUNC, MYTH_VS_N_SITES + 2, fn, 0 };
  mvsim_enter(&r);
}

/* memory-access-granularity schedule points (build flavour "mem", see mvsim_tsan.c): every second non-stack
   access of library code; scheduling decisions only, like the function-granularity points */
static int own_stack_range(uintptr_t sp, uintptr_t *lo, uintptr_t *hi);
void mvsim_mem_point(const void *addr, const void *spp) {
  if (!g_active || g_in_dispatch) return;
  /* accesses to the running context's own stack are private.  The stack is identified exactly (ledger of live
     thread stacks, worker coroutine stacks), not by distance: the decision must not depend on the address layout,
     which depends on what ran earlier in the process. */
  uintptr_t sp = (uintptr_t)spp, a = (uintptr_t)addr;
  if (!(sp >= c_lo && sp < c_hi)) { if (!own_stack_range(sp, &c_lo, &c_hi)) { c_lo = sp - (1u << 22); c_hi = sp + (1u << 22); } }   /* unknown = the process's initial stack */
  if (a >= c_lo && a < c_hi) return;
  if (++g_mem_ctr & 1) return;
  struct mvreq r = { RQ_FUNC, MYTH_VS_N_SITES + 3, (void *)addr, 0 };
  mvsim_enter(&r);
}

void myth_verif_spin(int site) {
  if (!g_active) return;
  ALIGN_CHECK(site);
  struct mvreq r = { RQ_SPIN, site, 0, 0 };
  mvsim_enter(&r);
}

static void ledger_mark_finished(const void *th);
void myth_verif_probe(int site, const void *p) {
  if (!g_active) return;
  ALIGN_CHECK(site);
  if (site >= 0 && site < 160) g_st.probe[site]++;
  if (site >= MYTH_VP_POP_SLOW) { sig_mix(0x5000 + (uint64_t)site); ring_add(mvsim_cur ? mvsim_cur->id : -1, 0, site, p); }
  if (site == MYTH_VP_FINISH_WAITER || site == MYTH_VP_FINISH_NEXT || site == MYTH_VP_FINISH_SCHED) ledger_mark_finished(p);
  if (g_probe_cb) g_probe_cb(site, p, g_st.steps);
}

void mvsim_quiesce(void) {
  if (!g_active) return;
  struct mvreq r = { RQ_QUIESCE, MYTH_VS_NONE, 0, 0 };
  mvsim_enter(&r);
}

static void worker_boot(void);

static worker *spawn_slot(int slot, void *(*fn)(void *), void *arg) {
  worker *w = &g_w[slot];
  if (!w->stack) {
    w->stack_size = WORKER_STACK_SIZE;
    w->stack = mmap(0, w->stack_size, PROT_READ | PROT_WRITE, MAP_PRIVATE | MAP_ANONYMOUS, -1, 0);
    if (w->stack == MAP_FAILED) { perror("mmap worker stack"); _exit(4); }
  }
  uintptr_t top = ((uintptr_t)w->stack + w->stack_size - 64) & ~(uintptr_t)15;
  uint64_t *sp = (uint64_t *)top;
  *--sp = 0;                         /* fake return address of worker_boot */
  *--sp = (uint64_t)(uintptr_t)worker_boot;
  for (int i = 0; i < 6; i++) *--sp = 0;
  w->rsp = sp;
  w->fn = fn; w->arg = arg;
  w->state = W_READY; w->dirty = 1; w->saved_rank = -1; w->last_kind = 0; w->last_site = 0;
  w->stalled_until = 0; w->spin_seen = 0; w->req_kind = 0; w->obs = 0;
  g_progress++;
  return w;
}

static void worker_boot(void) {
  worker *w = mvsim_cur;
  w->fn(w->arg);
  struct mvreq r = { RQ_EXIT, MYTH_VS_NONE, 0, 0 };
  mvsim_enter(&r);
  fprintf(stderr, "mvsim: finished worker resumed\n");
  _exit(4);
}

int myth_verif_spawn_worker(void *(*fn)(void *), void *arg) {
  if (!g_active) return 0;
  long rank = (long)(intptr_t)arg;
  if (rank <= 0 || rank >= NATIVE_BASE) mvsim_violation("INFRA", "worker rank %ld out of simulator range", rank);
  spawn_slot((int)rank, fn, arg);
  g_envs_valid = 1;        /* myth_init allocated the worker descriptors before it starts workers */
  g_nspawned++;
  if ((int)rank + 1 > g_st.max_workers) g_st.max_workers = (int)rank + 1;
  return 1;
}

int myth_verif_join_worker(long rank) {
  if (!g_active) return 0;
  struct mvreq r = { RQ_JOINW, MYTH_VS_NONE, 0, rank };
  mvsim_enter(&r);
  return 1;
}

int mvsim_spawn_native(void *(*fn)(void *), void *arg) {
  for (int s = NATIVE_BASE; s < NSLOTS; s++)
    if (g_w[s].state == W_UNUSED || g_w[s].state == W_DONE) { spawn_slot(s, fn, arg); return s; }
  return -1;
}
void mvsim_join_native(int id) {
  struct mvreq r = { RQ_JOINW, MYTH_VS_NONE, 0, id };
  mvsim_enter(&r);
}

int myth_verif_barrier_wait(void *b, int n) {
  if (!g_active) return 0;
  g_ss_n = mvsim_lib_sched_stacks(g_ss_lo, g_ss_hi, NSLOTS); c_lo = c_hi = 0;   /* the worker descriptors are valid here */
  g_envs_valid = !g_exit_seen;   /* start-up barriers: valid from now on; shut-down barrier: myth_fini frees them next */
  struct mvreq r = { RQ_BARRIER, MYTH_VS_NONE, b, n };
  mvsim_enter(&r);
  return 1;
}

int myth_verif_random(int min, int max, int *result) {
  if (!g_active) return 0;
  long v;
  long span = (long)max - (long)min;
  if (span <= 0) span = 1;
  if (g_replay) {
    if (g_rp_rand_i < g_rp_rand.n) v = g_rp_rand.v[g_rp_rand_i++]; else { v = 0; }
    v = ((v % span) + span) % span;
  } else {
    v = (long)mvsim_rng_below(&g_rng_rand, (uint64_t)span);
  }
  lv_push(&g_tr_rand, v);
  g_st.rand_draws++;
  *result = min + (int)v;
  return 1;
}

/* cooperative fault points ("buggify"): in about half of the runs, and then with a per-run rate of 1..20 %, an
   operation that may legally fail (a trylock on a run queue's lock: "another thief holds it right now") fails.
   Rate and on/off derive from the run seed; the outcomes are recorded with the random draws, so replay is exact. */
int myth_verif_buggify(int site) {
  if (!g_active || g_bug_permille == 0) return 0;
  long v;
  if (g_replay) v = g_rp_rand_i < g_rp_rand.n ? g_rp_rand.v[g_rp_rand_i++] : 0;
  else v = mvsim_rng_below(&g_rng_rand, 1000) < (uint64_t)g_bug_permille;
  lv_push(&g_tr_rand, v);
  if (site >= 0 && site < 160) g_st.probe[site] += (uint64_t)(v != 0);
  return v != 0;
}

/* the library's cycle counter (busy-wait back-off loops spin on it): virtual, so that no verdict and no run time
   depends on real time.  Not a schedule point.  Consecutive reads with no hook in between (a pure delay loop) make the
   counter jump by doubling amounts, so a delay of 2^k cycles costs about k reads. */
int myth_verif_rdtsc(unsigned long long *t) {
  if (!g_active) return 0;
  if (g_vtsc_last_step == g_st.steps + 1) { if (g_vtsc_delta < (1ULL << 40)) g_vtsc_delta *= 2; }
  else g_vtsc_delta = 64;
  g_vtsc_last_step = g_st.steps + 1;
  g_vtsc += g_vtsc_delta;
  g_st.tsc_reads++;
  *t = g_vtsc;
  return 1;
}

int myth_verif_gettime(struct timespec *ts) {
  if (!g_active) return 0;
  ALIGN_CHECK(-1);
  /* reading the clock is a schedule point */
  struct mvreq r = { RQ_CLOCK, MYTH_VS_NONE, 0, 0 };
  mvsim_enter(&r);
  g_clock_ns += (g_st.steps - g_clock_last_read_step) * g_cfg.clk_step_ns;
  g_clock_last_read_step = g_st.steps;
  long inc;
  if (g_replay) {
    inc = g_rp_clock_i < g_rp_clock.n ? g_rp_clock.v[g_rp_clock_i++] : 0;
    if (inc < 0) inc = 0;
  } else {
    uint64_t d = mvsim_rng_below(&g_rng_clock, 1000);
    if (d < (uint64_t)g_cfg.clk_zero_permille) inc = 0;
    else if (d < (uint64_t)(g_cfg.clk_zero_permille + g_cfg.clk_jump_permille)
             && g_clock_ns + g_cfg.clk_jump_ns < 12000000000000000000ULL) inc = (long)g_cfg.clk_jump_ns;   /* never overflow the 64-bit ns clock */
    else inc = (long)(1 + mvsim_rng_below(&g_rng_clock, 2 * g_cfg.clk_read_ns));
  }
  lv_push(&g_tr_clock, inc);
  g_st.clock_reads++;
  if (inc == 0) g_st.clock_zero++;
  if (g_cfg.clk_jump_ns && (uint64_t)inc >= g_cfg.clk_jump_ns) g_st.clock_jumps++;
  if ((uint64_t)inc > 18000000000000000000ULL - g_clock_ns)
    mvsim_violation("INFRA", "virtual clock would overflow 64-bit nanoseconds (harness must rescale the clock)");
  g_clock_ns += (uint64_t)inc;
  g_clock_last_value = g_clock_ns;
  ts->tv_sec = (time_t)(g_clock_ns / 1000000000ULL);
  ts->tv_nsec = (long)(g_clock_ns % 1000000000ULL);
  return 1;
}

/* the harness may rescale the clock between calls (a run mixing nanosecond and decades-long waits) */
void mvsim_set_clock_scale(uint64_t read_ns, uint64_t jump_ns) { g_cfg.clk_read_ns = read_ns ? read_ns : 1; g_cfg.clk_jump_ns = jump_ns; }

int myth_verif_queue_size(int dflt) {
  if (!g_active || g_cfg.queue_size <= 0) return dflt;
  return g_cfg.queue_size;
}

unsigned long long (*myth_verif_dr_clock)(void);

/* ------------------------------------------------------------------ */
/* ledger                                                              */
/* ------------------------------------------------------------------ */
enum { L_FREE = 1, L_ALLOC = 2 };
typedef struct { uintptr_t p; uint32_t gen; uint8_t kind, state; int16_t rank; size_t size; int custom; int fin; } lent;
#define LCAP (1u << 16)
static lent *g_led;
static uint32_t g_led_gen;
static mvsim_ledger_stats g_ls;
static uint64_t g_cls_fresh[64], g_cls_live[64], g_cls_peak[64];
static int stack_class(int custom, size_t sz) { if (!custom) return 0; int k = 12; size_t rs = 4096; while (rs < sz && k < 63) { rs <<= 1; k++; } return k; }
/* list of live stacks for the overlap check */
static struct { uintptr_t lo, hi; } *g_live; static int g_nlive, g_caplive;

static void ledger_reset(void) {
  if (!g_led) { int b = g_in_dispatch; g_in_dispatch = 1; g_led = calloc(LCAP, sizeof(lent)); g_in_dispatch = b; }
  g_led_gen++;
  if (g_led_gen == 0) { memset(g_led, 0, LCAP * sizeof(lent)); g_led_gen = 1; }
  memset(&g_ls, 0, sizeof g_ls);
  memset(g_cls_fresh, 0, sizeof g_cls_fresh); memset(g_cls_live, 0, sizeof g_cls_live); memset(g_cls_peak, 0, sizeof g_cls_peak);
  g_nlive = 0;
}
static lent *led_find(uintptr_t p, int create) {
  uint32_t h = (uint32_t)((p >> 4) * 0x9e3779b1u) & (LCAP - 1);
  for (uint32_t i = 0; i < LCAP; i++) {
    lent *e = &g_led[(h + i) & (LCAP - 1)];
    if (e->gen != g_led_gen) {
      if (!create) return 0;
      e->gen = g_led_gen; e->p = p; e->state = 0; e->kind = 0;
      return e;
    }
    if (e->p == p) return e;
  }
  mvsim_violation("INFRA", "ledger table full");
}
void mvsim_ledger_get(mvsim_ledger_stats *s) { *s = g_ls; }
static void ledger_mark_finished(const void *th) {
  if (!g_led) return;
  lent *e = led_find((uintptr_t)th, 0);
  if (e && e->kind == MYTH_VK_DESC && e->state == L_ALLOC) e->fin = 1;
}
/* per size class: were more fresh blocks mapped than were ever live at once (+slack)?  returns the class or -1 */
int mvsim_ledger_fresh_excess(int slack, unsigned long long *fresh, unsigned long long *peak) {
  for (int k = 0; k < 64; k++)
    if (g_cls_fresh[k] > g_cls_peak[k] + (uint64_t)slack) { *fresh = g_cls_fresh[k]; *peak = g_cls_peak[k]; return k; }
  return -1;
}
int mvsim_ledger_is_allocated(const void *p) {
  lent *e = led_find((uintptr_t)p, 0);
  return e && e->state == L_ALLOC;
}
long mvsim_ledger_allocated(int kind) {
  long n = 0;
  for (uint32_t i = 0; i < LCAP; i++)
    if (g_led[i].gen == g_led_gen && g_led[i].kind == kind && g_led[i].state == L_ALLOC) n++;
  return n;
}

static void live_add(uintptr_t lo, uintptr_t hi) {
  c_lo = c_hi = 0;
  for (int i = 0; i < g_nlive; i++)
    if (lo < g_live[i].hi && g_live[i].lo < hi)
      mvsim_violation("LEDGER", "stack [%#lx,%#lx) handed out while overlapping live stack [%#lx,%#lx)",
                      (unsigned long)lo, (unsigned long)hi, (unsigned long)g_live[i].lo, (unsigned long)g_live[i].hi);
  if (g_nlive == g_caplive) { g_caplive = g_caplive ? g_caplive * 2 : 256; int b = g_in_dispatch; g_in_dispatch = 1; g_live = realloc(g_live, g_caplive * sizeof *g_live); g_in_dispatch = b; }
  g_live[g_nlive].lo = lo; g_live[g_nlive].hi = hi; g_nlive++;
}
static void live_del(uintptr_t lo) {
  c_lo = c_hi = 0;
  for (int i = 0; i < g_nlive; i++) if (g_live[i].lo == lo) { g_live[i] = g_live[--g_nlive]; return; }
}

static int own_stack_range(uintptr_t sp, uintptr_t *lo, uintptr_t *hi) {
  for (int i = 0; i < g_nlive; i++) if (sp >= g_live[i].lo && sp < g_live[i].hi) { *lo = g_live[i].lo; *hi = g_live[i].hi; return 1; }
  for (int i = 0; i < NSLOTS; i++) if (g_w[i].stack && sp >= (uintptr_t)g_w[i].stack && sp < (uintptr_t)g_w[i].stack + g_w[i].stack_size) {
    *lo = (uintptr_t)g_w[i].stack; *hi = *lo + g_w[i].stack_size; return 1; }
  for (int i = 0; i < g_ss_n; i++) if (sp >= g_ss_lo[i] && sp < g_ss_hi[i]) { *lo = g_ss_lo[i]; *hi = g_ss_hi[i]; return 1; }
  if (g_envs_valid) {      /* a scheduler stack allocated since the last snapshot */
    g_ss_n = mvsim_lib_sched_stacks(g_ss_lo, g_ss_hi, NSLOTS);
    for (int i = 0; i < g_ss_n; i++) if (sp >= g_ss_lo[i] && sp < g_ss_hi[i]) { *lo = g_ss_lo[i]; *hi = g_ss_hi[i]; return 1; }
  }
  return 0;    /* the process's initial stack (worker 0 / the simulator itself) */
}

/* size of the live thread stack that contains sp (0 if sp is on no library-managed stack) */
size_t mvsim_ledger_stack_extent(const void *spp) {
  uintptr_t sp = (uintptr_t)spp;
  for (int i = 0; i < g_nlive; i++) if (sp >= g_live[i].lo && sp < g_live[i].hi) return (size_t)(g_live[i].hi - g_live[i].lo);
  return 0;
}

void myth_verif_alloc(int kind, void *p, size_t size, int rank) {
  if (!g_active) return;
  if (rank != mvsim_lib_rank())
    mvsim_violation("LEDGER", "block %s taken from the free list of worker %d by worker %d",
                    kind == MYTH_VK_DESC ? "record" : "stack", rank, mvsim_lib_rank());
  /* stacks are keyed by the base address of their block (the same size-class block can be
     handed out under different sizes, i.e. different top pointers) */
  uintptr_t key = kind == MYTH_VK_STACK ? (uintptr_t)p + 2 * sizeof(void *) - size : (uintptr_t)p;
  lent *e = led_find(key, 1);
  if (e->state == L_ALLOC)
    mvsim_violation("LEDGER", "%s handed out while still allocated (in use by another thread)",
                    kind == MYTH_VK_DESC ? "record" : "stack");
  if (e->state == L_FREE && e->kind != kind)
    mvsim_violation("LEDGER", "block changes kind between release and reuse");
  int fresh = (e->state == 0);
  if (!fresh && e->rank != rank)
    mvsim_violation("LEDGER", "block released to worker %d popped from the list of worker %d", e->rank, rank);
  e->kind = (uint8_t)kind; e->state = L_ALLOC; e->rank = (int16_t)rank; e->size = size; e->fin = 0;
  if (kind == MYTH_VK_DESC) {
    if (fresh) g_ls.desc_fresh++; else g_ls.desc_reused++;
    if (++g_ls.live_desc > g_ls.peak_live_desc) g_ls.peak_live_desc = g_ls.live_desc;
  } else {
    if (fresh) g_ls.stack_fresh++; else g_ls.stack_reused++;
    if (++g_ls.live_stack > g_ls.peak_live_stack) g_ls.peak_live_stack = g_ls.live_stack;
    uintptr_t hi = (uintptr_t)p + 2 * sizeof(void *);
    e->custom = (*(uintptr_t *)((uintptr_t)p + sizeof(void *)) != 0);
    int k = stack_class(e->custom, size);
    if (fresh) g_cls_fresh[k]++;
    if (++g_cls_live[k] > g_cls_peak[k]) g_cls_peak[k] = g_cls_live[k];
    live_add(hi - size, hi);
  }
}

void myth_verif_free(int kind, void *p, size_t size, int rank, void *thread) {
  if (!g_active) return;
  const char *kn = kind == MYTH_VK_DESC ? "record" : "stack";
  if (rank != mvsim_lib_rank())
    mvsim_violation("LEDGER", "%s released to the free list of worker %d by worker %d", kn, rank, mvsim_lib_rank());
  uintptr_t key = kind == MYTH_VK_STACK ? (uintptr_t)p + 2 * sizeof(void *) - size : (uintptr_t)p;
  lent *e = led_find(key, 0);
  if (!e || e->state == 0) mvsim_violation("LEDGER", "%s released that was never handed out (or with another size than it was handed out)", kn);
  if (e->state == L_FREE) mvsim_violation("LEDGER", "%s released twice", kn);
  if (e->kind != kind) mvsim_violation("LEDGER", "%s released as the wrong kind", kn);
  if (kind == MYTH_VK_STACK) {
    if (e->size != size)
      mvsim_violation("LEDGER", "stack of %zu bytes released as %zu bytes (wrong size class)", e->size, size);
    uintptr_t hi = (uintptr_t)p + 2 * sizeof(void *), lo = hi - size;
    uintptr_t sp = (uintptr_t)__builtin_frame_address(0);
    if (sp >= lo && sp < hi)
      mvsim_violation("LEDGER", "stack released while the releasing code still runs on it (before the final switch-away)");
    live_del(lo);
    if (g_cfg.poison) {
      memset((void *)lo, 0xA5, (size_t)((uintptr_t)p - lo));
      g_st.poisoned_stacks++;
    }
    g_ls.live_stack--; g_ls.stack_freed++;
    g_cls_live[stack_class(e->custom, e->size)]--;
  } else {
    void *stk = mvsim_th_stack(thread);
    /* a record may be released only when its thread has finished, i.e. after the thread reached the
       library's termination path (FINISH_* probe with this record; it is passed by return, myth_exit
       and cancellation alike).  Exception: the main thread's record (stack==NULL), released at fini.
       Deliberately not judged by the record's status/detached fields: those are representation. */
    if (stk != 0 && !e->fin)
      mvsim_violation("LEDGER", "record released while its thread has not finished (no termination event seen for it)");
    if (g_cfg.poison && stk != 0) {
      *mvsim_th_result_ptr(thread) = (void *)(uintptr_t)0xDEADBEEFDEAD0000ULL;
      g_st.poisoned_results++;
    }
    g_ls.live_desc--; g_ls.desc_freed++;
  }
  e->state = L_FREE; e->rank = (int16_t)rank;
}

/* After myth_fini the library has forgotten every block it ever mapped (its free lists are
 * re-initialised by the next myth_init), so the runtime unmaps them to keep long batches flat. */
void mvsim_ledger_release_all(void) {
  static struct { uintptr_t base; size_t len; } *rg; static int cap;
  int n = 0;
  size_t dsz = (mvsim_th_sizeof() + 0xFFF) & ~(size_t)0xFFF;
  /* pass 1: compute the mapped regions while everything is still readable */
  for (uint32_t i = 0; i < LCAP; i++) {
    lent *e = &g_led[i];
    if (e->gen != g_led_gen || e->state == 0) continue;
    uintptr_t base; size_t len;
    if (e->kind == MYTH_VK_DESC) { base = e->p; len = dsz; }
    else {
      size_t sz = e->size;
      if (!e->custom) { base = e->p; len = (sz + 0xFFF) & ~(size_t)0xFFF; }
      else { size_t rs = 4096; while (rs < sz && rs) rs <<= 1; base = e->p; len = rs; }
    }
    e->state = 0;
    if (n == cap) { cap = cap ? cap * 2 : 1024; rg = realloc(rg, cap * sizeof *rg); }
    rg[n].base = base; rg[n].len = len; n++;
  }
  /* pass 2: unmap (the same size-class block may appear under several stack sizes) */
  for (int i = 0; i < n; i++) munmap((void *)rg[i].base, rg[i].len);
}

/* ------------------------------------------------------------------ */
/* replay file loading (minimal JSON subset: "name": [ints])           */
/* ------------------------------------------------------------------ */
static int load_list(const char *text, const char *name, lvec *out) {
  char key[80]; snprintf(key, sizeof key, "\"%s\"", name);
  const char *p = strstr(text, key);
  out->n = 0;
  if (!p) return -1;
  p = strchr(p + strlen(key), '[');
  if (!p) return -1;
  p++;
  while (*p && *p != ']') {
    while (*p == ' ' || *p == ',' || *p == '\n') p++;
    if (*p == ']' || !*p) break;
    char *e; long v = strtol(p, &e, 10);
    if (e == p) return -1;
    lv_push(out, v); p = e;
  }
  return 0;
}
const long *mvsim_replay_list(const char *name, int *n) {
  static lvec tmp[8]; static int rot;
  if (!g_rp_text) { *n = 0; return 0; }
  lvec *t = &tmp[rot++ & 7];
  if (load_list(g_rp_text, name, t) != 0) { *n = 0; return 0; }
  *n = t->n; return t->v;
}
int mvsim_cfg_from_replay(mvsim_runcfg *c) {
  int n; const long *v = mvsim_replay_list("cfg", &n);
  if (!v || n < 19) return -1;
  memset(c, 0, sizeof *c);
  c->run_seed = (uint64_t)v[0]; c->strategy = (int)v[1]; c->switch_permille = (int)v[2]; c->pct_depth = (int)v[3];
  c->pct_len = (uint64_t)v[4]; c->rr_quantum = (int)v[5]; c->stall_len = (uint64_t)v[6]; c->stall_permille = (int)v[7];
  c->budget1 = (uint64_t)v[8]; c->budget2 = (uint64_t)v[9]; c->queue_size = (int)v[10]; c->poison = (int)v[11];
  c->clk_step_ns = (uint64_t)v[12]; c->clk_read_ns = (uint64_t)v[13]; c->clk_zero_permille = (int)v[14];
  c->clk_jump_permille = (int)v[15]; c->clk_jump_ns = (uint64_t)v[16]; c->clk_epoch_s = (uint64_t)v[17];
  c->clk_epoch_ns = (uint64_t)v[18];
  return 0;
}
int mvsim_replay_load(const char *path) {
  FILE *f = fopen(path, "r");
  if (!f) return -1;
  fseek(f, 0, SEEK_END); long sz = ftell(f); fseek(f, 0, SEEK_SET);
  g_rp_text = malloc(sz + 1);
  if (fread(g_rp_text, 1, sz, f) != (size_t)sz) { fclose(f); return -1; }
  g_rp_text[sz] = 0; fclose(f);
  if (load_list(g_rp_text, "sched_rle", &g_rp_sched) != 0) return -1;
  load_list(g_rp_text, "rand", &g_rp_rand);
  load_list(g_rp_text, "clock", &g_rp_clock);
  g_replay = 1;
  return 0;
}
