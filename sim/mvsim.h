/* mvsim.h -- deterministic simulator runtime for MassiveThreads (whole-library engine).
 *
 * The library is compiled with -DMYTH_VERIF; its hooks (src/myth_verif.h) are
 * implemented here.  All workers run as coroutines on ONE OS thread; the runtime
 * decides at every hook which worker continues.  One 64-bit seed fixes everything.
 */
#ifndef MVSIM_H_
#define MVSIM_H_

#include <stdint.h>
#include <stddef.h>
#include <stdio.h>
#include <time.h>

#ifdef __cplusplus
extern "C" {
#endif

#define MVSIM_MAX_WORKERS 72

/* scheduling strategies */
enum { MVS_UNIFORM = 0, MVS_STICKY, MVS_PCT, MVS_STALL, MVS_RR, MVS_N_STRATEGIES };

typedef struct {
  uint64_t s[4];
} mvsim_rng;

uint64_t mvsim_splitmix(uint64_t *x);
void     mvsim_rng_seed(mvsim_rng *r, uint64_t seed, uint64_t salt);
uint64_t mvsim_rng_next(mvsim_rng *r);
/* uniform in [0,n) (n>0) */
uint64_t mvsim_rng_below(mvsim_rng *r, uint64_t n);

typedef struct {
  uint64_t run_seed;        /* everything derives from this */
  int      strategy;        /* MVS_* */
  int      switch_permille; /* STICKY/STALL: probability of a switch at a point */
  int      pct_depth;       /* PCT: number of priority change points */
  uint64_t pct_len;         /* PCT: expected run length in steps */
  int      rr_quantum;      /* RR */
  uint64_t stall_len;       /* STALL: length of a stall in steps */
  int      stall_permille;  /* STALL: probability (per 1000 steps) a stall starts */
  uint64_t budget1;         /* adversarial steps before the fair drain starts */
  uint64_t budget2;         /* further steps under fair scheduling before HANG */
  int      queue_size;      /* INITIAL_QUEUE_SIZE for this run (0 = library default) */
  int      poison;          /* poison released stacks / results */
  /* virtual clock */
  uint64_t clk_step_ns;     /* advance per simulator step */
  uint64_t clk_read_ns;     /* typical advance per clock read */
  int      clk_zero_permille; /* probability that a read does not advance the clock */
  int      clk_jump_permille; /* probability of a large forward jump at a read */
  uint64_t clk_jump_ns;
  uint64_t clk_epoch_s;     /* initial time */
  uint64_t clk_epoch_ns;
} mvsim_runcfg;

typedef struct {
  uint64_t steps;           /* hook events that were scheduling decisions */
  uint64_t switches;        /* decisions that changed the running worker */
  uint64_t preemptions;     /* switches away from a worker that was still enabled */
  uint64_t stalls;          /* stalls of >=100 steps injected */
  uint64_t spins;           /* spin/idle hook events */
  uint64_t rand_draws;
  uint64_t clock_reads, clock_zero, clock_jumps, tsc_reads;
  uint64_t virt_ns;         /* virtual nanoseconds elapsed */
  uint64_t poisoned_stacks, poisoned_results;
  uint64_t signature;       /* FNV hash of the event log */
  uint64_t switch_pairs;    /* distinct (site->site) preemption pairs in this run (bitmap popcount) */
  int      drained;         /* the fair drain had to be started */
  int      max_workers;
  uint64_t probe[160];      /* per-site hit counts (points, spins and probes) */
} mvsim_runstats;

/* ---- run control ---- */
void mvsim_global_init(void);                 /* once per process */
void mvsim_default_cfg(mvsim_runcfg *c, uint64_t run_seed);  /* swarm: draws knobs from the seed */
void mvsim_begin_run(const mvsim_runcfg *c);  /* activates the hooks; caller becomes worker 0 */
void mvsim_end_run(mvsim_runstats *out);      /* deactivates the hooks */
int  mvsim_active(void);

/* ---- for harness code running inside the simulation ---- */
void     mvsim_user_point(void);              /* schedule point in user code */
void     mvsim_set_clock_scale(uint64_t read_ns, uint64_t jump_ns);   /* virtual-clock increments from now on */
size_t   mvsim_ledger_stack_extent(const void *sp);   /* size of the live thread stack containing sp, 0 if none */
void     mvsim_user_spin(void);               /* one iteration of a user-level busy-wait: parked until another worker made progress */
void     mvsim_quiesce(void);                 /* run the others until they all idle */
uint64_t mvsim_step(void);                    /* global step number (event sequence number) */
int      mvsim_cur_worker(void);              /* simulator's idea of the running worker coroutine */
uint64_t mvsim_now_ns(void);                  /* virtual clock, does not advance it */
void     mvsim_now_ts(struct timespec *ts);
uint64_t mvsim_last_clock_ns(void);
uint64_t mvsim_clock_reads(void);             /* number of hr_gettime calls so far in this run */           /* last value handed to the library by hr_gettime */
uint64_t mvsim_probe_count(int site);
int      mvsim_n_workers_done(void);
int      mvsim_n_workers_spawned(void);
mvsim_rng *mvsim_poison_rng(void);

/* spawn an extra "native" context (not a worker) that runs fn(arg); used for racing myth_init */
int  mvsim_spawn_native(void *(*fn)(void *), void *arg);
void mvsim_join_native(int id);

/* probe callback: called for every probe event (site, pointer, step) */
typedef void (*mvsim_probe_cb_t)(int site, const void *p, uint64_t step);
void mvsim_set_probe_cb(mvsim_probe_cb_t cb);

/* alignment assertion: every hook checks that it was called with an ABI-aligned stack */
extern int mvsim_check_alignment;

/* ---- ledger (C12/C13) ---- */
typedef struct {
  uint64_t desc_fresh, desc_reused, desc_freed;
  uint64_t stack_fresh, stack_reused, stack_freed;
  uint64_t live_desc, live_stack, peak_live_desc, peak_live_stack;
} mvsim_ledger_stats;
void mvsim_ledger_get(mvsim_ledger_stats *s);
int  mvsim_ledger_fresh_excess(int slack, unsigned long long *fresh, unsigned long long *peak);
/* at quiescence: every block allocated or free exactly once; returns number of allocated blocks of kind */
long mvsim_ledger_allocated(int kind);
/* mark a thread record as one the harness expects to be still allocated (unreaped) */
int  mvsim_ledger_is_allocated(const void *p);
/* after myth_fini: unmap every block the library mapped during the run */
void mvsim_ledger_release_all(void);

/* ---- violations ---- */
/* reports and terminates the process (exit code 10); never returns */
void mvsim_violation(const char *cls, const char *fmt, ...) __attribute__((noreturn, format(printf, 2, 3)));
/* context for reports, set by the harness main loop */
void mvsim_set_context(const char *harness, const char *wclass, uint64_t base_seed, long run_index,
                       const char *replay_out_dir);
/* the harness registers a function that prints its plan parameters into the replay file */
typedef void (*mvsim_plan_dumper_t)(FILE *f);
void mvsim_set_plan_dumper(mvsim_plan_dumper_t d);

/* ---- replay ---- */
/* load schedule / random / clock streams from a replay file (see driver/replay format); returns 0 on ok */
int  mvsim_replay_load(const char *path);
int  mvsim_cfg_from_replay(mvsim_runcfg *c);
int  mvsim_replay_active(void);
int  mvsim_replay_diverged(void);
/* write the replay file of the current/last run */
int  mvsim_replay_write(const char *path, const char *vclass, const char *vmsg);
/* raw access for the harness: get a named integer list from the loaded replay file */
const long *mvsim_replay_list(const char *name, int *n);

/* library accessors (mvsim_lib.c, compiled against the library's internal headers) */
int    mvsim_th_status(const void *th);
void **mvsim_th_result_ptr(void *th);
void  *mvsim_th_stack(const void *th);
int    mvsim_th_detached(const void *th);
size_t mvsim_th_sizeof(void);
int    mvsim_lib_nworkers(void);
int    mvsim_lib_queue_len(int rank);
int    mvsim_lib_rank(void);
int    mvsim_lib_all_queues_at_base0(void);
void   mvsim_lib_set_rank(int r);

#ifdef __cplusplus
}
#endif
#endif
