/* wl_bulk.c -- class "bulk" (C17, C part): myth_create_join_many_ex / myth_create_join_various_ex
 * must be observably the sequential loop. */
#define _GNU_SOURCE
#include <stdlib.h>
#include <string.h>
#include "myth/myth.h"
#include "mvh.h"
#include "wl_common.h"
#define MYTH_VERIF 1
#include "myth_verif.h"

enum { Q_NWORKERS, Q_QSIZE, Q_PFIRST, Q_YIELD_PM, Q_SEED, B_N, B_VARIOUS, B_ARG_STRIDE, B_RES_STRIDE, B_ID_STRIDE,
       B_FUNC_STRIDE, B_ATTR_STRIDE, B_WITH_RES, B_WITH_IDS, B_WITH_ATTRS, B_NESTED, B_OVERLAP, B_NP };
static const char *const names[] = { "nworkers", "queue_size", "parent_first", "yield_pm", "seed", "n", "various", "arg_stride",
  "res_stride", "id_stride", "func_stride", "attr_stride", "with_results", "with_ids", "with_attrs", "nested", "overlap" };
static const long *P;
#define GUARD 0x5c
#define MAXN 1024
static unsigned char *A_args, *A_res, *A_ids, *A_funcs, *A_attrs;
static size_t cap = 0;
static int calls[MAXN];          /* per item invocation counter (index derived from the argument address) */
static int fn_used[MAXN];
static long total_calls;

static void gen(mvsim_rng *r, long *p, int tier) {
  static const long ns[] = { 0, 1, 2, 3, 5, 8, 13, 100, 1000 };
  p[B_N] = mvh_pick(r, ns, tier ? 9 : 8);
  wl_gen_common(r, &p[Q_NWORKERS], &p[Q_QSIZE], &p[Q_PFIRST], p[B_N] + 8 + 3 * 64 + 8);
  p[Q_YIELD_PM] = mvh_chance(r, 500) ? 300 : 0; p[Q_SEED] = (long)(mvsim_rng_next(r) >> 20);
  p[B_VARIOUS] = mvh_chance(r, 500);
  static const long as[] = { 16, 16, 24, 40, 64, 0 };
  p[B_ARG_STRIDE] = mvh_pick(r, as, 6);
  static const long ps[] = { 8, 8, 16, 24, 72 };
  p[B_RES_STRIDE] = mvh_pick(r, ps, 5); p[B_ID_STRIDE] = mvh_pick(r, ps, 5);
  static const long fs[] = { 0, 8, 8, 16, 40 };
  p[B_FUNC_STRIDE] = mvh_pick(r, fs, 5);
  static const long ats[] = { 56, 56, 64, 128 };
  p[B_ATTR_STRIDE] = mvh_pick(r, ats, 4);
  p[B_WITH_RES] = mvh_chance(r, 700); p[B_WITH_IDS] = mvh_chance(r, 500); p[B_WITH_ATTRS] = mvh_chance(r, 400);
  p[B_NESTED] = mvh_chance(r, 150);
  p[B_OVERLAP] = mvh_chance(r, 400) ? mvh_range(r, 1, 3) : 0;   /* other bulk calls, with other functions, overlapping this one */
}
typedef struct { long tag; long pad; } item_t;
static long item_index(void *arg) {
  long off = (unsigned char *)arg - A_args;
  if (P[B_ARG_STRIDE] == 0) return off == 0 ? 0 : -1;
  if (off < 0 || off % P[B_ARG_STRIDE]) return -1;
  return off / P[B_ARG_STRIDE];
}
static void *common_f(int f, void *arg) {
  long i = item_index(arg);
  MVH_CHECK(i >= 0 && i < (P[B_N] ? P[B_N] : 1), "C17-ARG", "function called with %p which is not args + i*stride", arg);
  if (P[B_ARG_STRIDE]) MVH_CHECK(((item_t *)arg)->tag == 1000 + i, "C17-ARG", "item %ld has tag %ld", i, ((item_t *)arg)->tag);
  calls[i]++; total_calls++;
  fn_used[i] = f;
  if ((int)(wl_mix(P[Q_SEED], i) % 1000) < P[Q_YIELD_PM]) myth_yield(); else mvsim_user_point();
  return (void *)(uintptr_t)(0x4000 + i * 4 + f);
}
static void *f0(void *a) { return common_f(0, a); }
static void *f1(void *a) { return common_f(1, a); }
static void *f2(void *a) { return common_f(2, a); }
static void *f3(void *a) { return common_f(3, a); }
static myth_func_t const FN[4] = { f0, f1, f2, f3 };
static int fn_of(long i) { return P[B_FUNC_STRIDE] == 0 ? (int)(P[Q_SEED] & 3) : (int)(wl_mix(P[Q_SEED], 70 + i) & 3); }

static void fill(unsigned char *a, size_t n) { memset(a, GUARD, n); }
static void check_guards(const unsigned char *a, size_t stride, long n, size_t slot, const char *what, size_t total) {
  /* everything outside [i*stride, i*stride+slot) must still be the guard pattern */
  for (size_t off = 0; off < total; off++) {
    int inside = 0;
    if (stride) { size_t i = off / stride; inside = (long)i < n && off - i * stride < slot; }
    else inside = n > 0 && off < slot;
    if (!inside) MVH_CHECK(a[off] == GUARD, "C17-GUARD", "%s array: byte %zu outside every slot was overwritten", what, off);
  }
}
static void one_call(long n) {
  size_t as = (size_t)P[B_ARG_STRIDE], rs = (size_t)P[B_RES_STRIDE], is = (size_t)P[B_ID_STRIDE], fs = (size_t)P[B_FUNC_STRIDE], ats = (size_t)P[B_ATTR_STRIDE];
  size_t need = (size_t)(n + 2) * 128 + 256;
  if (need > cap) { cap = need; A_args = realloc(A_args, cap); A_res = realloc(A_res, cap); A_ids = realloc(A_ids, cap); A_funcs = realloc(A_funcs, cap); A_attrs = realloc(A_attrs, cap); }
  fill(A_args, cap); fill(A_res, cap); fill(A_ids, cap); fill(A_funcs, cap); fill(A_attrs, cap);
  memset(calls, 0, sizeof calls); total_calls = 0;
  for (long i = 0; i < (n ? n : 0); i++) {
    if (as || i == 0) { item_t *it = (item_t *)(A_args + i * as); it->tag = 1000 + i; it->pad = 0; }
    if (fs || i == 0) *(myth_func_t *)(A_funcs + i * fs) = FN[fn_of(i)];
    if (P[B_WITH_ATTRS]) {
      myth_thread_attr_t *at = (myth_thread_attr_t *)(A_attrs + i * ats);
      myth_thread_attr_init(at);
      if (wl_mix(P[Q_SEED], 300 + i) & 1) myth_thread_attr_setstacksize(at, 32768 + 4096 * (size_t)(wl_mix(P[Q_SEED], 310 + i) % 4));
    }
  }
  if (n == 0 || fs == 0) *(myth_func_t *)A_funcs = FN[fn_of(0)];
  void *res = P[B_WITH_RES] ? A_res : 0;
  myth_thread_t *ids = P[B_WITH_IDS] ? (myth_thread_t *)A_ids : 0;
  myth_thread_attr_t *attrs = P[B_WITH_ATTRS] ? (myth_thread_attr_t *)A_attrs : 0;
  int rc;
  if (P[B_VARIOUS]) rc = myth_create_join_various_ex(ids, attrs, (myth_func_t *)A_funcs, A_args, res, is, ats, fs, as, rs, n);
  else rc = myth_create_join_many_ex(ids, attrs, FN[fn_of(0)], A_args, res, is, ats, as, rs, n);
  MVH_CHECK(rc == 0, "C17-RC", "bulk helper returned %d", rc);
  /* compare with the sequential loop */
  MVH_CHECK(total_calls == n, "C17-COUNT", "%ld calls for n=%ld", total_calls, n);
  for (long i = 0; i < n; i++) {
    long slot = as ? i : 0;
    if (as) MVH_CHECK(calls[i] == 1, "C17-COUNT", "item %ld: function applied %d times", i, calls[i]);
    int f = P[B_VARIOUS] ? fn_of(fs ? i : 0) : fn_of(0);
    if (as) MVH_CHECK(fn_used[i] == f, "C17-FUNC", "item %ld was run by function %d, expected %d", i, fn_used[i], f);
    if (res) {
      void *v = *(void **)(A_res + i * rs);
      if (as) MVH_CHECK(v == (void *)(uintptr_t)(0x4000 + slot * 4 + f), "C17-RESULT", "result slot %ld holds %p", i, v);
      else MVH_CHECK(((uintptr_t)v & ~(uintptr_t)3) == 0x4000, "C17-RESULT", "result slot %ld holds %p", i, v);
    }
    if (ids) {
      myth_thread_t idv = *(myth_thread_t *)(A_ids + i * is);
      MVH_CHECK(idv != 0 && idv != (myth_thread_t)(uintptr_t)0x5c5c5c5c5c5c5c5cULL, "C17-IDS", "id slot %ld was not written (%p)", i, (void *)idv);
    }
  }
  check_guards(A_res, rs, res ? n : 0, sizeof(void *), "results", (size_t)(n + 1) * (rs ? rs : 8) + 64);
  check_guards(A_ids, is, ids ? n : 0, sizeof(void *), "ids", (size_t)(n + 1) * (is ? is : 8) + 64);
  check_guards(A_args, as, n, sizeof(item_t), "args", (size_t)(n + 1) * (as ? as : 16) + 64);
  mvh_counter[mvh_counter_id("bulk_calls")]++;
  mvh_counter[mvh_counter_id("bulk_items")] += (uint64_t)n;
}
/* ---- side calls: independent bulk calls with their own function and arrays that overlap the main call in time
   (two callers on different workers, or a call issued from inside an item of another call).  Each must still be
   its own sequential loop. ---- */
#define SIDE_MAX 64
static long side_args[3][SIDE_MAX]; static void *side_res[3][SIDE_MAX]; static int side_calls[3][SIDE_MAX]; static long side_n[3];
static void side_call(int which, long m);
static void *side_common(int which, void *arg) {
  long i = (long *)arg - side_args[which];
  MVH_CHECK(i >= 0 && i < side_n[which] && side_args[which][i] == 7000 + which * 100 + i, "C17-ARG",
            "side call %d: function applied to %p, which is not one of its items (another call's function ran on this call's item, or vice versa)", which, arg);
  side_calls[which][i]++;
  if (wl_mix(P[Q_SEED], 900 + which * 64 + i) & 1) myth_yield(); else mvsim_user_point();
  if (which == 0 && i == 0 && P[B_OVERLAP] >= 2) side_call(2, 1 + (long)(wl_mix(P[Q_SEED], 950) % 9));   /* nested call with another function */
  return (void *)(uintptr_t)(0x900000 + which * 0x10000 + i);
}
static void *side_f0(void *a) { return side_common(0, a); }
static void *side_f1(void *a) { return side_common(1, a); }
static void *side_f2(void *a) { return side_common(2, a); }
static myth_func_t const SIDE_FN[3] = { side_f0, side_f1, side_f2 };
static void side_call(int which, long m) {
  if (m > SIDE_MAX) m = SIDE_MAX;
  side_n[which] = m;
  for (long i = 0; i < m; i++) { side_args[which][i] = 7000 + which * 100 + i; side_res[which][i] = (void *)0x5c5c; side_calls[which][i] = 0; }
  int rc = myth_create_join_many_ex(0, 0, SIDE_FN[which], side_args[which], side_res[which], 0, 0, sizeof(long), sizeof(void *), (size_t)m);
  MVH_CHECK(rc == 0, "C17-RC", "bulk helper (side call %d) returned %d", which, rc);
  for (long i = 0; i < m; i++) {
    MVH_CHECK(side_calls[which][i] == 1, "C17-COUNT", "side call %d, item %ld: its function was applied %d times", which, i, side_calls[which][i]);
    MVH_CHECK(side_res[which][i] == (void *)(uintptr_t)(0x900000 + which * 0x10000 + i), "C17-RESULT", "side call %d, result slot %ld holds %p (not the value of this call's function)", which, i, side_res[which][i]);
  }
  mvh_counter[mvh_counter_id("bulk_side_calls")]++;
}
static void *side_thread(void *a) { long w = (long)a; side_call((int)w, 2 + (long)(wl_mix(P[Q_SEED], 960 + w) % 30)); return a; }
static void *nested_caller(void *a) { one_call((long)a); return a; }
static void run(const long *p, mvsim_runcfg *cfg, mvsim_runstats *st) {
  P = p;
  long n = p[B_N]; if (n > MAXN - 1) n = MAXN - 1;
  cfg->budget1 += 3000 * (uint64_t)n; cfg->budget2 += 30000 * (uint64_t)n;
  wl_begin(cfg, p[Q_NWORKERS], 32, p[Q_QSIZE], (int)p[Q_PFIRST]);
  myth_thread_t side[2]; int nside = p[B_OVERLAP] ? 2 : 0;
  for (long w = 0; w < nside; w++) { side[w] = myth_create(side_thread, (void *)w); wl_maybe_yield(wl_mix(p[Q_SEED], 970 + w), 500); }
  if (p[B_NESTED]) { myth_thread_t t = myth_create(nested_caller, (void *)n); void *r; myth_join(t, &r); }
  else one_call(n);
  for (int w = 0; w < nside; w++) { void *r; myth_join(side[w], &r); }
  one_call(0);          /* n = 0 does nothing */
  if (mvsim_probe_count(MYTH_VP_STEAL_HIT) || mvsim_probe_count(MYTH_VP_JOIN_NEXT) + mvsim_probe_count(MYTH_VP_JOIN_SCHED)) mvh_run_flags |= 1;
  wl_end(st, 1);
}
const mvh_class wl_bulk = { "bulk", B_NP, names, gen, run, 0, 0 };
