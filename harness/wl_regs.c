/* wl_regs.c -- class "regs" (C03): callee-saved registers and stack contents survive every kind of
 * switch and migration; every function entered on a thread's stack sees an ABI-aligned stack. */
#define _GNU_SOURCE
#include <stdlib.h>
#include <string.h>
#include <errno.h>
#include <unistd.h>
#include "myth/myth.h"
#include "mvh.h"
#include "wl_common.h"
#define MYTH_VERIF 1
#include "myth_verif.h"

long mvregs_call(void (*fn)(void *), void *arg, const unsigned long pat[6], unsigned long out[6]);

enum { Q_NWORKERS, Q_QSIZE, Q_PFIRST, Q_YIELD_PM, Q_SEED, R_NTHREADS, R_NOPS, R_ARRWORDS, R_STACK_EXTRA, R_NP };
static const char *const names[] = { "nworkers", "queue_size", "parent_first", "yield_pm", "seed", "nthreads", "nops", "arrwords", "def_stack_extra" };
static const long *P;
static int NT;
static myth_thread_t TH[16];
static myth_mutex_t RM, CM; static myth_cond_t CC; static myth_barrier_t RB;
static volatile long cond_arrived;
static volatile int rm_occ;
static struct { volatile long p; myth_uncond_t u; } UC[8];
static long migrations, ops_done[16];
enum { OP_YIELD0, OP_YIELD1, OP_YIELD2, OP_YIELD3, OP_YIELD4, OP_CREATE, OP_CREATE_EX, OP_JOIN_BLOCK, OP_JOIN_DONE, OP_MUTEX,
       OP_SLEEP, OP_BARRIER, OP_CONDBAR, OP_UNCOND, OP_N };
static const char *const opname[] = { "yield(half_half)", "yield(local_only)", "yield(local_first)", "yield(steal_only)", "yield(steal_first)",
  "create child-first", "create_ex(attr)", "join(blocking)", "join(finished)", "mutex lock/unlock", "usleep", "barrier_wait", "cond-based barrier", "uncond hand-off" };
static long opcount[OP_N];

static void gen(mvsim_rng *r, long *p, int tier) {
  p[R_NTHREADS] = 2 * mvh_range(r, 1, tier ? 6 : 4);
  p[R_NOPS] = mvh_range(r, 3, tier ? 40 : 16);
  static const long aw[] = { 32, 64, 128, 512 };
  p[R_ARRWORDS] = mvh_pick(r, aw, 4);
  static const long ex[] = { 0, 0, 8, 24, 1000, 4088, 520 };
  p[R_STACK_EXTRA] = mvh_pick(r, ex, 7);   /* default stack sizes that are not a multiple of 16 / of the page size */
  wl_gen_common(r, &p[Q_NWORKERS], &p[Q_QSIZE], &p[Q_PFIRST], p[R_NTHREADS] * 3);
  p[Q_YIELD_PM] = 500; p[Q_SEED] = (long)(mvsim_rng_next(r) >> 20);
}
typedef struct { long t, i; int op; } opctx;
static size_t odd_stack_size(uint64_t h) {
  static const size_t sz[] = { 65536 + 1, 131072 - 4095, 126977, 65535, 98304 + 123, 262144 - 1, 81920 };
  return sz[h % 7];
}
static void *child_fn(void *a) { for (long k = 0; k < ((long)a & 3); k++) myth_yield(); mvsim_user_point(); return a; }
static void *child_quick(void *a) { return a; }
enum { us_full = 1, us_sleeping = 2 };
static void uc_exchange(int slot, int producer, long x) {
  for (;;) {
    mvsim_user_point();
    long old = UC[slot].p;
    mvsim_user_point();
    if (producer) {
      if (old & us_full) { if (__sync_bool_compare_and_swap(&UC[slot].p, old, old | us_sleeping)) myth_uncond_wait(&UC[slot].u); }
      else if (__sync_bool_compare_and_swap(&UC[slot].p, old, (x << 2) | us_full)) { if (old & us_sleeping) myth_uncond_signal(&UC[slot].u); return; }
    } else {
      if (old & us_full) { if (__sync_bool_compare_and_swap(&UC[slot].p, old, 0)) { if (old & us_sleeping) myth_uncond_signal(&UC[slot].u); MVH_CHECK((old >> 2) == x, "C08-SEQUENCE", "uncond hand-off value %ld expected %ld", old >> 2, x); return; } }
      else if (__sync_bool_compare_and_swap(&UC[slot].p, old, old | us_sleeping)) myth_uncond_wait(&UC[slot].u);
    }
  }
}
/* the switching operation, called through the register-loading stub */
static int op_of(long t, long i);
static void do_op(void *arg) {
  opctx *c = arg;
  switch (c->op) {
    case OP_YIELD0: myth_yield(); break;
    case OP_YIELD1: myth_yield_ex(myth_yield_option_local_only); break;
    case OP_YIELD2: myth_yield_ex(myth_yield_option_local_first); break;
    case OP_YIELD3: myth_yield_ex(myth_yield_option_steal_only); break;
    case OP_YIELD4: myth_yield_ex(myth_yield_option_steal_first); break;
    case OP_CREATE: { myth_thread_t t = myth_create(child_fn, (void *)(c->i + 1)); void *r; myth_join(t, &r); break; }
    case OP_CREATE_EX: {
      myth_thread_attr_t a; myth_thread_attr_init(&a);
      if (c->i & 1) myth_thread_attr_setstacksize(&a, (c->i & 2) ? 16384 : odd_stack_size(wl_mix(P[Q_SEED], 8900 + (uint64_t)c->i)));
      myth_thread_t t; myth_create_ex(&t, &a, child_fn, (void *)(c->i + 2)); void *r; myth_join(t, &r); break;
    }
    case OP_JOIN_BLOCK: { myth_thread_t t = myth_create(child_fn, (void *)3L); void *r = 0; myth_join(t, &r); MVH_CHECK(r == (void *)3L, "C01-JOIN-VALUE", "join value"); break; }
    case OP_JOIN_DONE: { myth_thread_t t = myth_create(child_quick, (void *)5L); for (int k = 0; k < 3; k++) myth_yield(); void *r = 0; myth_join(t, &r); MVH_CHECK(r == (void *)5L, "C01-JOIN-VALUE", "join value"); break; }
    case OP_MUTEX:
      myth_mutex_lock(&RM); rm_occ++; MVH_CHECK(rm_occ == 1, "C04-MUTEX", "occupancy %d", rm_occ);
      mvsim_user_point(); myth_yield();
      rm_occ--; myth_mutex_unlock(&RM); break;
    case OP_SLEEP: myth_usleep(1 + (useconds_t)(c->i % 3)); break;
    case OP_BARRIER: myth_barrier_wait(&RB); break;
    case OP_CONDBAR: {
      long phase = 0;
      for (long j = 3; j <= c->i; j += 4) if (op_of(c->t, j) == OP_CONDBAR) phase++;
      /* the last arriver broadcasts either while it holds the mutex or after it released it (both legal) */
      int outside = (int)(wl_mix(P[Q_SEED], 9100 + phase) & 1), last;
      myth_mutex_lock(&CM);
      cond_arrived++;
      last = (cond_arrived == phase * NT);
      if (last) { if (!outside) myth_cond_broadcast(&CC); }
      else while (cond_arrived < phase * NT) myth_cond_wait(&CC, &CM);
      myth_mutex_unlock(&CM);
      if (last && outside) { mvsim_user_point(); myth_cond_broadcast(&CC); }
      break;
    }
    case OP_UNCOND: uc_exchange((int)(c->t / 2), (int)(c->t & 1) == 0, c->i); break;
  }
}
static int op_of(long t, long i) {
  /* every fourth operation is a collective one, executed by all probe threads at the same index */
  if (i % 4 == 3) { static const int coll[] = { OP_BARRIER, OP_CONDBAR, OP_UNCOND }; return coll[(wl_mix(P[Q_SEED], 1000 + i) % 3)]; }
  uint64_t h = wl_mix(P[Q_SEED], t * 131 + i);
  return (int)(h % OP_BARRIER);
}
static void *probe_thread(void *arg) {
  long t = (long)arg;
  /* an aligned SSE store on entry: faults if the thread was started on a misaligned stack */
  float v[4] __attribute__((aligned(16)));
  __asm__ volatile("xorps %%xmm0,%%xmm0\n\tmovaps %%xmm0,%0" : "=m"(v) : : "xmm0");
  MVH_CHECK((((uintptr_t)v) & 15) == 0, "C03-ALIGN", "aligned local at %p", (void *)v);
  long words = P[R_ARRWORDS];
  volatile uint64_t arr[words];
  for (long i = 0; i < P[R_NOPS]; i++) {
    opctx c = { t, i, op_of(t, i) };
    unsigned long pat[6], out[6];
    for (int k = 0; k < 6; k++) { pat[k] = wl_mix(P[Q_SEED] ^ (uint64_t)t << 20, i * 8 + k) | 1; out[k] = 0; }
    for (long w = 0; w < words; w++) arr[w] = pat[w % 6] + (uint64_t)w;
    int w0 = myth_get_worker_num();
    mvregs_call(do_op, &c, pat, out);
    if (myth_get_worker_num() != w0) migrations++;
    static const char *const rn[] = { "rbx", "rbp", "r12", "r13", "r14", "r15" };
    for (int k = 0; k < 6; k++)
      MVH_CHECK(out[k] == pat[k], "C03-REGISTER", "thread %ld op %ld (%s): %s = %#lx after the call, loaded %#lx before", t, i, opname[c.op], rn[k], out[k], pat[k]);
    for (long w = 0; w < words; w++)
      MVH_CHECK(arr[w] == pat[w % 6] + (uint64_t)w, "C03-STACK", "thread %ld op %ld (%s): stack word %ld changed", t, i, opname[c.op], w);
    opcount[c.op]++; ops_done[t]++;
  }
  return (void *)(t + 1);
}
static void run(const long *p, mvsim_runcfg *cfg, mvsim_runstats *st) {
  P = p;
  NT = (int)p[R_NTHREADS]; if (NT > 12) NT = 12; if (NT & 1) NT++;
  cond_arrived = 0; rm_occ = 0; migrations = 0; memset(ops_done, 0, sizeof ops_done); memset((void *)UC, 0, sizeof UC);
  cfg->clk_read_ns = 400; cfg->clk_jump_permille = 0;
  cfg->budget1 += 20000 * (uint64_t)p[R_NOPS] * NT; cfg->budget2 += 100000 * (uint64_t)p[R_NOPS] * NT;
  wl_def_stack_extra = p[R_STACK_EXTRA];
  wl_begin(cfg, p[Q_NWORKERS], 64, p[Q_QSIZE], (int)p[Q_PFIRST]);
  myth_mutex_init(&RM, 0); myth_mutex_init(&CM, 0); myth_cond_init(&CC, 0); myth_barrier_init(&RB, 0, NT);
  for (int s = 0; s < NT / 2; s++) myth_uncond_init(&UC[s].u);
  for (long i = 0; i < NT; i++) {
    /* probe threads on default stacks and on custom stacks of sizes that are not multiples of the page size (the
       attribute size classes round them; short-lived children on the same odd sizes recycle those blocks next to us) */
    uint64_t hs = wl_mix(p[Q_SEED], 8800 + i);
    int custom = (hs % 3) == 0;
    if ((p[Q_PFIRST] && (i & 1)) || custom) {
      myth_thread_attr_t a; myth_thread_attr_init(&a);
      if (custom) myth_thread_attr_setstacksize(&a, odd_stack_size(hs >> 8));
      myth_create_ex(&TH[i], &a, probe_thread, (void *)i);
    } else TH[i] = myth_create(probe_thread, (void *)i);
  }
  for (int i = 0; i < NT; i++) { void *r = 0; myth_join(TH[i], &r); MVH_CHECK(r == (void *)(long)(i + 1), "C01-JOIN-VALUE", "join value"); }
  myth_barrier_destroy(&RB);
  mvh_counter[mvh_counter_id("probe_ops")] += (uint64_t)((long)NT * p[R_NOPS]);
  mvh_counter[mvh_counter_id("probe_migrations")] += (uint64_t)migrations;
  if (migrations) mvh_run_flags |= 1;
  wl_end(st, 1);
}
static void stats(FILE *f) {
  fprintf(f, "\"x_probe_ops_by_kind\":{");
  for (int k = 0; k < OP_N; k++) fprintf(f, "%s\"%s\":%ld", k ? "," : "", opname[k], opcount[k]);
  fprintf(f, "}");
}
const mvh_class wl_regs = { "regs", R_NP, names, gen, run, stats, 0 };
