/* wl_mtbb.cc -- classes "taskgroup" and "parfor" (C17, TBB-like layer in src/mtbb) */
#include <stdlib.h>
#include <string.h>
#include <myth/myth.h>
#include <mtbb/task_group.h>
#include <mtbb/parallel_for.h>
#include "mvh.h"
#include "wl_common.h"
#define MYTH_VERIF 1
#include "myth_verif.h"

enum { Q_NWORKERS, Q_QSIZE, Q_PFIRST, Q_YIELD_PM, Q_SEED, Q_COMMON };
static const long *P;

static void gen_common(mvsim_rng *r, long *p, long nthreads) {
  wl_gen_common(r, &p[Q_NWORKERS], &p[Q_QSIZE], &p[Q_PFIRST], nthreads + 8);
  p[Q_PFIRST] = 0;
  p[Q_YIELD_PM] = mvh_chance(r, 500) ? 300 : 0;
  p[Q_SEED] = (long)(mvsim_rng_next(r) >> 20);
}

/* ------------------------------------------------------------------ */
/* task_group                                                          */
/* ------------------------------------------------------------------ */
enum { G_NTASKS = Q_COMMON, G_ROUNDS, G_NESTED, G_NP };
static const char *const tg_names[] = { "nworkers", "queue_size", "parent_first", "yield_pm", "seed", "ntasks", "rounds", "nested" };
static int done_flag[64][48];
static long done_total;

static void tg_gen(mvsim_rng *r, long *p, int tier) {
  static const long nt[] = { 1, 2, 7, 8, 9, 16, 17, 40 };
  p[G_NTASKS] = mvh_pick(r, nt, 8);
  p[G_ROUNDS] = mvh_range(r, 1, tier ? 4 : 2);
  p[G_NESTED] = mvh_chance(r, 300);
  gen_common(r, p, p[G_NTASKS] * 3);
}
static void tg_leaf(int round, int i) {
  if ((int)(wl_mix(P[Q_SEED], round * 100 + i) % 1000) < P[Q_YIELD_PM]) myth_yield(); else mvsim_user_point();
  done_flag[round][i]++;
  done_total++;
}
static void tg_run(const long *p, mvsim_runcfg *cfg, mvsim_runstats *st) {
  P = p;
  memset(done_flag, 0, sizeof done_flag); done_total = 0;
  int n = (int)p[G_NTASKS]; if (n > 40) n = 40;
  wl_begin(cfg, p[Q_NWORKERS], 64, p[Q_QSIZE], 0);
  {
    mtbb::task_group tg;
    for (int r = 0; r < p[G_ROUNDS]; r++) {
      for (int i = 0; i < n; i++) {
        if (p[G_NESTED] && i == n / 2) {
          tg.run([=] {
            mtbb::task_group inner;
            for (int j = 0; j < 3; j++) inner.run([=] { tg_leaf(r, 41 + j); });
            inner.wait();
            for (int j = 0; j < 3; j++) MVH_CHECK(done_flag[r][41 + j] == 1, "C17-TG-WAIT", "inner task %d of round %d not complete when wait returned", j, r);
            tg_leaf(r, i);
          });
        } else tg.run([=] { tg_leaf(r, i); });
      }
      tg.wait();
      for (int i = 0; i < n; i++) MVH_CHECK(done_flag[r][i] == 1, "C17-TG-WAIT", "task %d of round %d ran %d times when wait returned", i, r, done_flag[r][i]);
      mvh_counter[mvh_counter_id("task_groups")]++;
    }
    tg.wait();   /* waiting on an empty group is a no-op */
  }
  long expect = (long)p[G_ROUNDS] * (n + (p[G_NESTED] ? 3 : 0));
  MVH_CHECK(done_total == expect, "C17-TG-COUNT", "%ld tasks ran, expected %ld", done_total, expect);
  if (mvsim_probe_count(MYTH_VP_STEAL_HIT) || mvsim_probe_count(MYTH_VP_JOIN_NEXT) + mvsim_probe_count(MYTH_VP_JOIN_SCHED)) mvh_run_flags |= 1;
  wl_end(st, 1);
}
extern "C" const mvh_class wl_taskgroup = { "taskgroup", G_NP, tg_names, tg_gen, tg_run, 0, 0 };

/* ------------------------------------------------------------------ */
/* parallel_for                                                        */
/* ------------------------------------------------------------------ */
enum { F_FIRST = Q_COMMON, F_LEN, F_STEP, F_FORM, F_GRAIN, F_NP };
static const char *const pf_names[] = { "nworkers", "queue_size", "parent_first", "yield_pm", "seed", "first", "len", "step", "form", "grain" };
#define PFMAX 2200
static int hits[PFMAX * 2];
static long hit_total, range_calls;
static long pf_first;

static void pf_gen(mvsim_rng *r, long *p, int tier) {
  static const long lens[] = { 0, 0, 1, 2, 3, 5, 8, 17, 100, 1000 };
  p[F_LEN] = mvh_pick(r, lens, tier ? 10 : 9);
  if (mvh_chance(r, 80)) p[F_LEN] = -mvh_range(r, 1, 5);        /* reversed range: empty */
  p[F_FIRST] = mvh_range(r, -50, 50);
  p[F_STEP] = mvh_range(r, 1, 7);
  p[F_FORM] = mvh_range(r, 0, 2);
  static const long gr[] = { 1, 2, 3, 16, 1000, 5000 };
  p[F_GRAIN] = mvh_pick(r, gr, 6);
  gen_common(r, p, 1100);
}
static inline void hit(long i) {
  long k = i - pf_first + PFMAX;
  MVH_CHECK(k >= 0 && k < 2 * PFMAX, "C17-PF-RANGE", "body called with index %ld outside the range", i);
  hits[k]++; hit_total++;
  if ((int)(wl_mix(P[Q_SEED], (uint64_t)i) % 1000) < P[Q_YIELD_PM] / 4) myth_yield();
}
static void pf_run(const long *p, mvsim_runcfg *cfg, mvsim_runstats *st) {
  P = p;
  memset(hits, 0, sizeof hits); hit_total = 0; range_calls = 0;
  long first = p[F_FIRST], len = p[F_LEN], step = p[F_STEP] < 1 ? 1 : p[F_STEP];
  if (len > 1000) len = 1000;
  long last = first + len;
  pf_first = first;
  cfg->budget1 += 4000 * (uint64_t)(len > 0 ? len : 1); cfg->budget2 += 40000 * (uint64_t)(len > 0 ? len : 1);
  wl_begin(cfg, p[Q_NWORKERS], 64, p[Q_QSIZE], 0);
  long eff_step = 1;
  switch (p[F_FORM]) {
    case 0:
      mtbb::parallel_for((long)first, (long)last, [](long i) { hit(i); });
      break;
    case 1:
      eff_step = step;
      mtbb::parallel_for((long)first, (long)last, (long)step, [](long i) { hit(i); });
      break;
    default: {
      eff_step = step;
      int st_ = (int)step;
      mtbb::parallel_for((int)first, (int)last, (int)step, (int)p[F_GRAIN],
                         [st_](int lo, int hi) { range_calls++; for (int i = lo; i < hi; i += st_) hit(i); });
      break;
    }
  }
  /* compare with the sequential loop */
  long expect = 0;
  for (long i = first; i < last; i += eff_step) {
    expect++;
    MVH_CHECK(hits[i - first + PFMAX] == 1, "C17-PF-COUNT", "parallel_for(%ld,%ld,step %ld): body called %d times for index %ld", first, last, eff_step, hits[i - first + PFMAX], i);
  }
  MVH_CHECK(hit_total == expect, "C17-PF-COUNT", "parallel_for(%ld,%ld,step %ld): body called %ld times in total, the sequential loop runs %ld iterations", first, last, eff_step, hit_total, expect);
  mvh_counter[mvh_counter_id(len <= 0 ? "parfor_empty_ranges" : "parfor_nonempty_ranges")]++;
  if (mvsim_probe_count(MYTH_VP_STEAL_HIT) || mvsim_probe_count(MYTH_VP_JOIN_NEXT) + mvsim_probe_count(MYTH_VP_JOIN_SCHED) || len <= 1) mvh_run_flags |= 1;
  wl_end(st, 1);
}
extern "C" const mvh_class wl_parfor = { "parfor", F_NP, pf_names, pf_gen, pf_run, 0, 0 };
