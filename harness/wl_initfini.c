/* wl_initfini.c -- class "initfini" (C15, simulated part): init/fini histories, worker counts,
 * worker indices, finalisation with the main thread on another worker, racing first use. */
#define _GNU_SOURCE
#include <stdlib.h>
#include <string.h>
#include <stdio.h>
#include "myth/myth.h"
#include "mvh.h"
#include "wl_common.h"
#define MYTH_VERIF 1
#include "myth_verif.h"

enum { I_NCYCLES, I_SEED, I_MAXW, I_NTHREADS, I_RACE, I_QSIZE, I_NP };
static const char *const names[] = { "ncycles", "seed", "maxw", "nthreads", "race", "queue_size" };
static const long *P;
static int cur_nw;
static volatile int ran[64];
static int main_migrations;

static void gen(mvsim_rng *r, long *p, int tier) {
  p[I_NCYCLES] = mvh_range(r, 1, tier ? 8 : 4);
  p[I_SEED] = (long)(mvsim_rng_next(r) >> 20);
  static const long mw[] = { 1, 2, 4, 8, 8, 16, 33, 64 };
  p[I_MAXW] = mvh_pick(r, mw, 8);
  p[I_NTHREADS] = mvh_range(r, 0, 24);
  p[I_RACE] = mvh_chance(r, 250) ? mvh_range(r, 2, 3) : 0;
  p[I_QSIZE] = p[I_NTHREADS] + 6 + (mvh_chance(r, 500) ? 0 : 100);
}
static void *leaf(void *arg) {
  long i = (long)arg;
  int w = myth_get_worker_num();
  MVH_CHECK(w >= 0 && w < cur_nw, "C15-WORKER-INDEX", "myth_get_worker_num()=%d with %d workers", w, cur_nw);
  MVH_CHECK(myth_get_num_workers() == cur_nw, "C15-NWORKERS", "myth_get_num_workers()=%d inside a thread, expected %d", myth_get_num_workers(), cur_nw);
  ran[i & 63]++;
  if (i & 1) myth_yield();
  mvsim_user_point();
  w = myth_get_worker_num();
  MVH_CHECK(w >= 0 && w < cur_nw, "C15-WORKER-INDEX", "myth_get_worker_num()=%d with %d workers", w, cur_nw);
  return (void *)(i + 1);
}
static void program(long cyc) {
  long n = P[I_NTHREADS];
  myth_thread_t th[64];
  memset((void *)ran, 0, sizeof ran);
  if (n > 64) n = 64;
  for (long i = 0; i < n; i++) { th[i] = myth_create(leaf, (void *)i); if (wl_mix(P[I_SEED], cyc * 100 + i) & 1) myth_yield(); }
  for (long i = 0; i < n; i++) { void *r = 0; myth_join(th[i], &r); MVH_CHECK(r == (void *)(i + 1), "C01-JOIN-VALUE", "join value %p", r); }
  for (long i = 0; i < n; i++) MVH_CHECK(ran[i] == 1, "C01-NEVER-RAN", "thread %ld ran %d times", i, ran[i]);
  MVH_CHECK(myth_get_num_workers() == cur_nw, "C15-NWORKERS", "myth_get_num_workers()=%d, expected %d", myth_get_num_workers(), cur_nw);
}
static int pick_nw(long cyc) {
  long maxw = P[I_MAXW]; if (maxw > 64) maxw = 64; if (maxw < 1) maxw = 1;
  return 1 + (int)(wl_mix(P[I_SEED], 10 + cyc) % (uint64_t)maxw);
}
static void one_cycle(long cyc) {
  uint64_t h = wl_mix(P[I_SEED], 20 + cyc);
  cur_nw = pick_nw(cyc);
  char buf[32]; snprintf(buf, sizeof buf, "%d", cur_nw);
  int spawned0 = mvsim_n_workers_spawned();
  switch (h % 5) {
    case 0: {   /* explicit, through a global attribute object */
      unsetenv("MYTH_NUM_WORKERS");
      myth_globalattr_t ga; myth_globalattr_init(&ga);
      myth_globalattr_set_n_workers(&ga, (size_t)cur_nw); myth_globalattr_set_bind_workers(&ga, 0);
      myth_globalattr_set_stacksize(&ga, 32768);
      myth_init_ex(&ga);
      break;
    }
    case 1:     /* explicit, defaults taken from the environment */
      setenv("MYTH_NUM_WORKERS", buf, 1);
      myth_globalattr_set_n_workers(0, (size_t)cur_nw);   /* g_attr persists across fini: refresh it like a fresh process would see it */
      myth_init();
      break;
    case 2:     /* implicit on first use, environment */
      setenv("MYTH_NUM_WORKERS", buf, 1);
      myth_globalattr_set_n_workers(0, (size_t)cur_nw);
      (void)myth_get_num_workers();
      break;
    case 4: {   /* the DEFAULT global attributes (attr == NULL), set one by one in a seeded order while the environment says
                   something else: the last word of every setter counts, and no setter may disturb another one's value */
      snprintf(buf, sizeof buf, "%d", cur_nw < 64 ? cur_nw + 1 : cur_nw - 1);
      setenv("MYTH_NUM_WORKERS", buf, 1);
      for (int k = 0; k < 4; k++) {
        switch ((int)((h >> (8 + 2 * k)) % 4 + k) % 4) {
          case 0: myth_globalattr_set_n_workers(0, (size_t)cur_nw); break;
          case 1: myth_globalattr_set_stacksize(0, (h >> 20) & 1 ? 32768 : 65536); break;
          case 2: myth_globalattr_set_bind_workers(0, 0); break;
          default: { size_t g = 0; myth_globalattr_get_guardsize(0, &g); myth_globalattr_set_guardsize(0, g); break; }
        }
      }
      myth_globalattr_set_n_workers(0, (size_t)cur_nw);          /* (the order above may have put it first or last; make sure it was said) */
      if ((h >> 30) & 1) myth_globalattr_set_stacksize(0, 49152);  /* ... and another setter after it */
      myth_globalattr_set_bind_workers(0, 0);
      if ((h >> 31) & 1) myth_init(); else (void)myth_get_num_workers();
      break;
    }
    default:    /* implicit on first use through thread creation */
      setenv("MYTH_NUM_WORKERS", buf, 1);
      myth_globalattr_set_n_workers(0, (size_t)cur_nw);
      { myth_thread_t t = myth_create(leaf, (void *)0L); void *r; myth_join(t, &r); }
      break;
  }
  MVH_CHECK(myth_get_num_workers() == cur_nw, "C15-NWORKERS", "cycle %ld: myth_get_num_workers()=%d, requested %d", cyc, myth_get_num_workers(), cur_nw);
  MVH_CHECK(mvsim_n_workers_spawned() - spawned0 == cur_nw - 1, "C15-INIT-ONCE", "cycle %ld: %d worker(s) were spawned for %d requested (initialisation must happen exactly once)", cyc, mvsim_n_workers_spawned() - spawned0, cur_nw);
  myth_init();   /* a second explicit init is a no-op */
  MVH_CHECK(mvsim_n_workers_spawned() - spawned0 == cur_nw - 1, "C15-INIT-ONCE", "a second myth_init spawned workers again");
  program(cyc);
  if (myth_get_worker_num() != 0) main_migrations++;
  uint64_t m0 = mvsim_probe_count(MYTH_VP_MAIN_MIGRATE_BACK);
  myth_fini();
  if (mvsim_probe_count(MYTH_VP_MAIN_MIGRATE_BACK) > m0) mvh_run_flags |= 1;
  MVH_CHECK(mvsim_n_workers_done() == mvsim_n_workers_spawned(), "C15-FINI", "cycle %ld: after myth_fini %d of %d spawned workers have stopped", cyc, mvsim_n_workers_done(), mvsim_n_workers_spawned());
  mvsim_ledger_release_all();
}
/* racing first use from several native contexts */
static volatile int race_winner, race_returned;
static void *racer(void *arg) {
  long id = (long)arg;
  mvsim_user_point();
  myth_globalattr_t ga;
  myth_globalattr_init(&ga);
  myth_globalattr_set_n_workers(&ga, (size_t)cur_nw); myth_globalattr_set_bind_workers(&ga, 0); myth_globalattr_set_stacksize(&ga, 32768);
  int rc = myth_init_ex(&ga);
  (void)rc; (void)id;
  /* whoever returns from myth_init -- winner or loser of the race -- must find the library initialised
     with the requested settings (the defaults still hold another worker count, as after an earlier cycle) */
  MVH_CHECK(myth_get_num_workers() == cur_nw, "C15-INIT-EARLY", "racing myth_init_ex returned to a caller before the initialisation had completed: myth_get_num_workers()=%d, requested %d", myth_get_num_workers(), cur_nw);
  MVH_CHECK(mvsim_n_workers_spawned() == cur_nw - 1, "C15-INIT-EARLY", "racing myth_init_ex returned to a caller when only %d of %d workers had been started", mvsim_n_workers_spawned(), cur_nw - 1);
  race_returned++;
  if (mvsim_lib_rank() == 0 && !race_winner) {
    /* this context became the main thread of the library */
    race_winner = (int)id + 1;
    /* do not finalise before every racer is back from myth_init: a racer arriving after
       myth_fini would legitimately initialise the library a second time */
    while (race_returned < P[I_RACE]) myth_verif_spin(MYTH_VS_NONE);
    MVH_CHECK(myth_get_num_workers() == cur_nw, "C15-NWORKERS", "race: myth_get_num_workers()=%d, requested %d", myth_get_num_workers(), cur_nw);
    program(99);
    myth_fini();
  }
  return 0;
}
static void run(const long *p, mvsim_runcfg *cfg, mvsim_runstats *st) {
  P = p;
  cfg->queue_size = (int)p[I_QSIZE];
  cfg->budget1 += 3000 * (uint64_t)p[I_MAXW] * (uint64_t)p[I_NCYCLES]; cfg->budget2 += 30000 * (uint64_t)p[I_MAXW] * (uint64_t)p[I_NCYCLES];
  main_migrations = 0;
  mvsim_begin_run(cfg);
  if (p[I_RACE]) {
    cur_nw = pick_nw(0);
    char buf[32]; snprintf(buf, sizeof buf, "%d", cur_nw);
    setenv("MYTH_NUM_WORKERS", buf, 1);
    myth_globalattr_set_n_workers(0, (size_t)cur_nw + 1);      /* stale defaults, as left behind by an earlier cycle */
    myth_globalattr_set_bind_workers(0, 0);
    race_winner = 0; race_returned = 0;
    int ids[3];
    for (long i = 0; i < p[I_RACE]; i++) ids[i] = mvsim_spawn_native(racer, (void *)i);
    for (long i = 0; i < p[I_RACE]; i++) mvsim_join_native(ids[i]);
    MVH_CHECK(race_winner != 0, "C15-INIT-ONCE", "no racing context became the main thread");
    MVH_CHECK(mvsim_n_workers_spawned() == cur_nw - 1, "C15-INIT-ONCE", "racing first use: %d worker(s) spawned for %d requested", mvsim_n_workers_spawned(), cur_nw);
    MVH_CHECK(mvsim_n_workers_done() == mvsim_n_workers_spawned(), "C15-FINI", "race: after myth_fini %d of %d workers have stopped", mvsim_n_workers_done(), mvsim_n_workers_spawned());
    mvh_run_flags |= 1;
    mvsim_ledger_release_all();
  } else {
    for (long c = 0; c < p[I_NCYCLES]; c++) one_cycle(c);
  }
  mvh_counter[mvh_counter_id("fini_called_on_other_worker")] += (uint64_t)main_migrations;
  mvsim_end_run(st);
}
const mvh_class wl_initfini = { "initfini", I_NP, names, gen, run, 0, 0 };
