/* wl_forkjoin.c -- workload class "forkjoin": random spawn trees through the public API.
 * Serves C01 (exactly once / join value / visibility), C02 (whole-library part, custom steal
 * functions), C12 (ledger, canaries, size classes) and C13 (reaping modes, ledger at quiescence).
 */
#define _GNU_SOURCE
#include <stdlib.h>
#include <string.h>
#include <errno.h>
#include <sys/mman.h>
#include <pthread.h>
#include "myth/myth.h"
#include "mvh.h"
#define MYTH_VERIF 1
#include "myth_verif.h"

extern uint32_t mvh_run_flags;

enum { P_NWORKERS, P_NTHREADS, P_FANOUT, P_DEPTH, P_TREESEED, P_PARENT_FIRST, P_ATTR_PM, P_STACK_MODE,
       P_NULLID_PM, P_EXIT_PM, P_YIELD_PM, P_REAP_MASK, P_JOIN_ORDER, P_POISON_ATTR, P_STEALFN,
       P_QUEUE_SIZE, P_DEF_STACK_KB, P_CANARY, P_BUFWORDS, P_STACK_EXTRA, P_NPARAMS };
static const char *const pnames[] = { "nworkers", "nthreads", "fanout", "depth", "treeseed", "parent_first",
  "attr_pm", "stack_mode", "nullid_pm", "exit_pm", "yield_pm", "reap_mask", "join_order", "poison_attr",
  "stealfn", "queue_size", "def_stack_kb", "canary", "bufwords", "def_stack_extra" };

enum { R_JOIN = 0, R_TRYJOIN, R_TIMEDJOIN, R_DETACH_EARLY, R_DETACH_LATE, R_ATTR_DETACH, R_NREAP, R_NONE = 99 };

#define MAXN 2100
#define MAXCH 8
typedef struct node {
  int id, parent, depth, nch;
  int ch[MAXCH];
  int order[MAXCH];
  int reap, use_attr, null_id, use_exit, stack_bytes;
  uint64_t h;
  myth_thread_t th;
  volatile int invoked, finished, reaped;
  volatile uint64_t published_step;   /* step at which FREE_READY2 was published (probe) */
  void *expect;
  uint64_t *buf;
} node;

static node N[MAXN];
static int nn;                 /* number of nodes incl. root (node 0 = main) */
static const long *P;
static uint64_t *bufpool;
static mvsim_rng user_rng;
static int n_nullid, n_attr_detach;

static uint64_t mix(uint64_t a, uint64_t b) {
  uint64_t x = a ^ (b * 0x9e3779b97f4a7c15ULL);
  return mvsim_splitmix(&x);
}

static void gen(mvsim_rng *r, long *p, int tier) {
  static const long nw[] = { 1, 2, 2, 3, 4, 4, 6, 8 };
  p[P_NWORKERS] = mvh_pick(r, nw, 8);
  if (tier && mvh_chance(r, 30)) p[P_NWORKERS] = 16;
  long maxn = tier ? (mvh_chance(r, 50) ? 2000 : 200) : 64;
  p[P_NTHREADS] = 1 + (long)mvsim_rng_below(r, mvh_chance(r, 500) ? 12 : maxn);
  p[P_FANOUT] = mvh_range(r, 1, 6);
  p[P_DEPTH] = mvh_range(r, 1, 6);
  p[P_TREESEED] = (long)(mvsim_rng_next(r) >> 16);
  p[P_PARENT_FIRST] = mvh_chance(r, 400);
  static const long pm[] = { 0, 0, 100, 300, 500, 1000 };
  p[P_ATTR_PM] = mvh_pick(r, pm, 6);
  p[P_STACK_MODE] = mvh_chance(r, 500) ? 0 : (tier && mvh_chance(r, 200) ? 2 : 1);
  p[P_NULLID_PM] = mvh_chance(r, 300) ? mvh_pick(r, pm, 6) / 2 : 0;
  p[P_EXIT_PM] = mvh_pick(r, pm, 6);
  p[P_YIELD_PM] = mvh_pick(r, pm, 6);
  /* reap mask: always allow join; add others at random */
  long m = 1;
  for (int b = 1; b < R_NREAP; b++) if (mvh_chance(r, 350)) m |= 1L << b;
  p[P_REAP_MASK] = m;
  p[P_JOIN_ORDER] = mvh_range(r, 0, 3);
  p[P_POISON_ATTR] = mvh_chance(r, 700);
  p[P_STEALFN] = mvh_chance(r, 600) ? 0 : mvh_range(r, 1, 4);
  /* capacity: never smaller than what the program can legitimately need */
  long need = p[P_NTHREADS] + 4;
  long cap = need;
  static const long caps[] = { 0, 1, 2, 8, 64, 1024, 4096 };
  cap += mvh_pick(r, caps, 7);
  p[P_QUEUE_SIZE] = cap;
  static const long dsk[] = { 16, 32, 64, 128 };
  p[P_DEF_STACK_KB] = mvh_pick(r, dsk, 4);
  p[P_CANARY] = mvh_chance(r, 700);
  p[P_BUFWORDS] = mvh_range(r, 1, 16);
  static const long ex[] = { 0, 0, 0, 8, 24, 1000, 4088 };
  p[P_STACK_EXTRA] = mvh_pick(r, ex, 7);
}

/* ---- tree construction: prefix-stable in nthreads ---- */
static void build_tree(void) {
  int n = (int)P[P_NTHREADS];
  if (n > MAXN - 1) n = MAXN - 1;
  nn = n + 1;
  uint64_t ts = (uint64_t)P[P_TREESEED];
  memset(N, 0, sizeof(node) * nn);
  N[0].id = 0; N[0].parent = -1; N[0].depth = 0; N[0].h = mix(ts, 0);
  int fan = (int)P[P_FANOUT], dep = (int)P[P_DEPTH];
  if (fan > MAXCH) fan = MAXCH;
  if (fan < 1) fan = 1;
  if (dep < 1) dep = 1;
  n_nullid = n_attr_detach = 0;
  for (int i = 1; i < nn; i++) {
    node *c = &N[i];
    c->id = i; c->h = mix(ts, i);
    /* parent: pseudo-random among earlier nodes with room; scan from a hashed start */
    int start = (int)(c->h % (uint64_t)i), par = -1;
    for (int k = 0; k < i; k++) {
      int cand = (start + k) % i;
      if (N[cand].depth < dep && N[cand].nch < fan) { par = cand; break; }
    }
    if (par < 0) { /* tree is full under (fanout, depth): attach to the root chain anyway, ignoring fanout */
      par = 0;
      for (int cand = 0; cand < i; cand++) if (N[cand].nch < MAXCH && N[cand].depth < dep) { par = cand; break; }
      if (N[par].nch >= MAXCH) { nn = i; break; }
    }
    c->parent = par; c->depth = N[par].depth + 1;
    N[par].ch[N[par].nch++] = i;
  }
  long mask = P[P_REAP_MASK] | 1;
  for (int i = 0; i < nn; i++) {
    node *c = &N[i];
    uint64_t h = c->h;
    c->expect = (void *)(uintptr_t)(0x100000 + (uint64_t)i * 16 + (h & 15) * 0x1000000ULL);
    c->use_attr = (int)((h >> 8) % 1000) < P[P_ATTR_PM];
    c->use_exit = (int)((h >> 20) % 1000) < P[P_EXIT_PM];
    c->null_id = 0; c->stack_bytes = 0;
    /* reap mode */
    int modes[R_NREAP], nm = 0;
    for (int b = 0; b < R_NREAP; b++) if (mask & (1L << b)) modes[nm++] = b;
    c->reap = modes[(h >> 32) % (uint64_t)nm];
    if (c->reap == R_ATTR_DETACH) c->use_attr = 1;
    if (c->use_attr) {
      if ((int)((h >> 40) % 1000) < P[P_NULLID_PM]) { c->null_id = 1; c->reap = R_NONE; }
      if (P[P_STACK_MODE]) {
        static const int pages1[] = { 0, 0, 1, 2, 3, 4, 5, 8, 9, 16, 17, 32, 33 };
        static const int pages2[] = { 0, 1, 4, 33, 64, 65, 256, 4096 };
        int pg = P[P_STACK_MODE] == 1 ? pages1[(h >> 44) % 13] : pages2[(h >> 44) % 8];
        static const int off[] = { 0, 1, 2048, 4095 };
        c->stack_bytes = pg ? pg * 4096 - off[(h >> 50) % 4] : 0;
      }
    }
    if (i > 0) { if (c->null_id) n_nullid++; if (c->reap == R_ATTR_DETACH) n_attr_detach++; }
    /* join order of the children */
    for (int k = 0; k < c->nch; k++) c->order[k] = k;
    int jo = (int)P[P_JOIN_ORDER];
    if (jo == 1) for (int k = 0; k < c->nch / 2; k++) { int t = c->order[k]; c->order[k] = c->order[c->nch - 1 - k]; c->order[c->nch - 1 - k] = t; }
    if (jo >= 2) {
      uint64_t x = h ^ 0xabcdef;
      for (int k = c->nch - 1; k > 0; k--) { int j = (int)(mvsim_splitmix(&x) % (uint64_t)(k + 1)); int t = c->order[k]; c->order[k] = c->order[j]; c->order[j] = t; }
    }
  }
}

static void describe(const long *p, FILE *f) {
  const long *saveP = P; P = p; build_tree();
  fprintf(f, "forkjoin workers=%ld nodes=%d %s cap=%ld stealfn=%ld:", p[P_NWORKERS], nn - 1,
          p[P_PARENT_FIRST] ? "parent-first(attr)" : "child-first", p[P_QUEUE_SIZE], p[P_STEALFN]);
  static const char *rn[] = { "join", "tryjoin", "timedjoin", "detach-early", "detach-late", "attr-detach" };
  for (int i = 1; i < nn && i < 40; i++)
    fprintf(f, " [%d<-%d %s%s%s%s stk=%d]", i, N[i].parent, N[i].reap == R_NONE ? "unreaped" : rn[N[i].reap],
            N[i].use_attr ? " attr" : "", N[i].null_id ? " nullid" : "", N[i].use_exit ? " exit" : "", N[i].stack_bytes);
  if (nn > 40) fprintf(f, " ...");
  P = saveP;
}

/* ---- probe callback: when was FREE_READY2 published for which node ---- */
static void probe_cb(int site, const void *p, uint64_t step) {
  if (site == MYTH_VP_FREE_READY2) {
    for (int i = 1; i < nn; i++)
      if (N[i].th == (myth_thread_t)p && N[i].invoked && !N[i].reaped && !N[i].published_step) { N[i].published_step = step ? step : 1; break; }
  }
}

/* ---- thread bodies ---- */
static __attribute__((noinline)) void nested_exit(int d, void *v) {
  volatile char pad[48];
  pad[0] = (char)d;
  if (d > 0) nested_exit(d - 1, v); else myth_exit(v);
  pad[1] = 0;
}

static void maybe_yield(node *n, int k) {
  uint64_t h = mix(n->h, 1000 + k);
  if ((int)(h % 1000) < P[P_YIELD_PM]) {
    switch ((h >> 12) % 7) {
      case 6: {   /* a thread may change its own cancel state at any time (also while somebody detaches or joins it);
                     the state itself is not judged here (no listed property speaks about it), only restored */
        int old = PTHREAD_CANCEL_ENABLE;
        myth_setcancelstate(PTHREAD_CANCEL_DISABLE, &old);
        mvsim_user_point();
        myth_setcancelstate(old, 0);
        break;
      }
      case 0: myth_yield(); break;
      case 1: myth_yield_ex(myth_yield_option_local_only); break;
      case 2: myth_yield_ex(myth_yield_option_local_first); break;
      case 3: myth_yield_ex(myth_yield_option_steal_only); break;
      case 4: myth_yield_ex(myth_yield_option_steal_first); break;
      default: mvsim_user_point(); break;
    }
  } else if ((h >> 40) & 1) mvsim_user_point();
}

static void *node_main(void *arg);

static void spawn(node *c) {
  if (c->use_attr) {
    myth_thread_attr_t a;
    if (P[P_POISON_ATTR]) {
      uint64_t g = mvsim_rng_next(mvsim_poison_rng());
      unsigned char *b = (unsigned char *)&a;
      for (size_t i = 0; i < sizeof a; i++) { b[i] = (unsigned char)(g >> ((i & 7) * 8)) | 0x41; if ((i & 7) == 7) g = mvsim_rng_next(mvsim_poison_rng()); }
      mvh_counter[mvh_counter_id("poisoned_attrs")]++;
    } else memset(&a, 0, sizeof a);
    myth_thread_attr_init(&a);
    if (c->stack_bytes) myth_thread_attr_setstacksize(&a, (size_t)c->stack_bytes);
    if (c->reap == R_ATTR_DETACH) myth_thread_attr_setdetachstate(&a, 1);
    int rc = myth_create_ex(c->null_id ? (myth_thread_t *)0 : (myth_thread_t *)&c->th, &a, node_main, c);
    MVH_CHECK(rc == 0, "C01-CREATE", "myth_create_ex returned %d", rc);
  } else {
    c->th = myth_create(node_main, c);
    MVH_CHECK(c->th != 0, "C01-CREATE", "myth_create returned NULL");
  }
}

static void check_child_done(node *c, void *val, const char *how) {
  MVH_CHECK(c->finished == 1, "C01-JOIN-EARLY", "%s of node %d returned before its function finished (finished=%d)", how, c->id, c->finished);
  MVH_CHECK(val == c->expect, "C01-JOIN-VALUE", "%s of node %d yielded %p, expected %p", how, c->id, val, c->expect);
  for (long w = 0; w < P[P_BUFWORDS]; w++)
    MVH_CHECK(c->buf[w] == (c->h ^ (uint64_t)w * 0x1111), "C01-VISIBILITY", "memory written by node %d not visible after %s (word %ld)", c->id, how, w);
  c->reaped = 1;
}

static void reap(node *c) {
  void *val = (void *)(uintptr_t)0x5151;
  switch (c->reap) {
    case R_JOIN: {
      int rc = myth_join(c->th, &val);
      MVH_CHECK(rc == 0, "C01-JOIN-RC", "myth_join returned %d", rc);
      check_child_done(c, val, "join");
      break;
    }
    case R_TRYJOIN: {
      for (;;) {
        uint64_t pub = c->published_step, inv = mvsim_step();
        int fin_before = c->finished;
        int rc = myth_tryjoin(c->th, &val);
        if (rc == 0) { MVH_CHECK(fin_before || c->finished, "C13-TRYJOIN", "tryjoin succeeded on an unfinished thread"); check_child_done(c, val, "tryjoin"); break; }
        MVH_CHECK(rc == EBUSY, "C13-TRYJOIN", "tryjoin returned %d", rc);
        MVH_CHECK(!(pub && pub < inv), "C13-TRYJOIN-BUSY", "tryjoin of node %d reported EBUSY although the thread had published its result at step %llu < call step %llu", c->id, (unsigned long long)pub, (unsigned long long)inv);
        mvh_counter[mvh_counter_id("tryjoin_busy")]++;
        myth_yield();
      }
      break;
    }
    case R_TIMEDJOIN: {
      for (;;) {
        struct timespec dl; mvsim_now_ts(&dl);
        uint64_t h = mix(c->h, mvsim_step());
        long add_ns = (long)(h % 3 == 0 ? 0 : (h >> 8) % 5000000);
        dl.tv_nsec += add_ns; if (dl.tv_nsec >= 1000000000L) { dl.tv_nsec -= 1000000000L; dl.tv_sec++; }
        if (h % 7 == 0) dl.tv_sec -= 1;       /* deadline in the past */
        uint64_t pub = c->published_step, inv = mvsim_step();
        int rc = myth_timedjoin(c->th, &val, &dl);
        if (rc == 0) { check_child_done(c, val, "timedjoin"); break; }
        MVH_CHECK(rc == EBUSY || rc == ETIMEDOUT, "C13-TIMEDJOIN", "timedjoin returned %d", rc);
        uint64_t dl_ns = (uint64_t)dl.tv_sec * 1000000000ULL + (uint64_t)dl.tv_nsec;
        MVH_CHECK(mvsim_last_clock_ns() > dl_ns, "C13-TIMEDJOIN-EARLY", "timedjoin gave up at %llu ns, before its deadline %llu ns", (unsigned long long)mvsim_last_clock_ns(), (unsigned long long)dl_ns);
        MVH_CHECK(!(pub && pub < inv), "C13-TIMEDJOIN-BUSY", "timedjoin of node %d timed out although the thread had finished before the call", c->id);
        mvh_counter[mvh_counter_id("timedjoin_timeouts")]++;
        myth_yield();
      }
      break;
    }
    case R_DETACH_LATE: {
      int rc = myth_detach(c->th);
      MVH_CHECK(rc == 0, "C13-DETACH", "myth_detach returned %d", rc);
      c->reaped = 1;
      break;
    }
    default: break;  /* detached early / by attribute / never reaped */
  }
}

static void body(node *n) {
  volatile uint64_t *can = 0; int ncan = 0;
  uint64_t canbuf[P[P_CANARY] ? 24 : 1];
  if (P[P_CANARY]) { can = canbuf; ncan = 24; for (int i = 0; i < ncan; i++) can[i] = n->h + (uint64_t)i; }
#define CANARY_CHECK(where) do { for (int ci = 0; ci < ncan; ci++) MVH_CHECK(can[ci] == n->h + (uint64_t)ci, "C12-CANARY", "stack contents of node %d changed across %s (word %d)", n->id, where, ci); } while (0)
  for (long w = 0; w < P[P_BUFWORDS]; w++) n->buf[w] = n->h ^ (uint64_t)w * 0x1111;
  int deferred = (P[P_JOIN_ORDER] == 3);
  for (int k = 0; k < n->nch; k++) {
    node *c = &N[n->ch[k]];
    maybe_yield(n, k);
    CANARY_CHECK("yield");
    spawn(c);
    CANARY_CHECK("create");
    if (c->reap == R_DETACH_EARLY) {
      int rc = myth_detach(c->th);
      MVH_CHECK(rc == 0, "C13-DETACH", "myth_detach returned %d", rc);
      c->reaped = 1;
      CANARY_CHECK("detach");
    }
    if (!deferred && ((mix(n->h, 77 + k) & 3) == 0)) {
      /* reap one earlier child right away (join issued while the child may still be running) */
      for (int j = 0; j <= k; j++) {
        node *d = &N[n->ch[j]];
        if (!d->reaped && d->reap <= R_TIMEDJOIN) { reap(d); CANARY_CHECK("early reap"); break; }
      }
    }
  }
  for (int k = 0; k < n->nch; k++) {
    node *c = &N[n->ch[n->order[k]]];
    maybe_yield(n, 100 + k);
    if (!c->reaped && c->reap != R_NONE && c->reap != R_ATTR_DETACH && c->reap != R_DETACH_EARLY) { reap(c); CANARY_CHECK("reap"); }
  }
  CANARY_CHECK("body end");
#undef CANARY_CHECK
}

static void *node_main(void *arg) {
  node *n = arg;
  MVH_CHECK(n >= &N[1] && n < &N[nn], "C01-ARG", "start function called with a foreign argument %p", arg);
  MVH_CHECK(n->invoked == 0, "C01-TWICE", "start function of node %d invoked twice", n->id);
  n->invoked = 1;
  int w = myth_get_worker_num();
  MVH_CHECK(w >= 0 && w < P[P_NWORKERS], "C15-WORKER-INDEX", "worker index %d outside [0,%ld)", w, P[P_NWORKERS]);
  if (n->use_attr && n->stack_bytes > 0) {
    /* "apart from the requested settings": the stack this thread runs on is at least as large as it asked for */
    size_t ext = mvsim_ledger_stack_extent(&w);
    MVH_CHECK(ext == 0 || ext >= (size_t)n->stack_bytes, "C01-STACK-SIZE", "node %d asked for a stack of %ld bytes through its attribute and runs on one of %zu bytes", n->id, (long)n->stack_bytes, ext);
  }
  body(n);
  n->finished = 1;
  if (n->use_exit) nested_exit(2, n->expect);
  return n->expect;
}

/* ---- custom steal functions (C02) ---- */
static int decide_decline(myth_thread_t th, void *ud) {
  (void)th; (void)ud;
  int d = (int)mvsim_rng_below(&user_rng, 1000) < 400;
  if (d) mvh_counter[mvh_counter_id("declined_steals")]++;
  return !d;
}
/* the peeked candidate is only a hint (the library's peek cache may be stale): take it if it is
   still first in line, otherwise take what is there half of the time */
static int decide_same(myth_thread_t th, void *ud) {
  if (th == (myth_thread_t)ud) return 1;
  mvh_counter[mvh_counter_id("peek_stale")]++;
  int d = (int)mvsim_rng_below(&user_rng, 1000) < 500;
  if (d) mvh_counter[mvh_counter_id("declined_steals")]++;
  return !d;
}

static myth_thread_t steal_decline(int rank) {
  int nw = myth_get_num_workers();
  if (nw <= 1) return 0;
  int v = myth_wsapi_rand();
  if (v == rank) return 0;
  return myth_wsapi_runqueue_take(v, decide_decline, 0);
}
static myth_thread_t steal_peektake(int rank) {
  int nw = myth_get_num_workers();
  if (nw <= 1) return 0;
  int v = myth_wsapi_rand();
  if (v == rank) return 0;
  size_t sz = 0;
  myth_thread_t cand = myth_wsapi_runqueue_peek(v, 0, &sz);
  if (!cand) return 0;
  mvh_counter[mvh_counter_id("peeks")]++;
  return myth_wsapi_runqueue_take(v, decide_same, cand);
}
static myth_thread_t steal_takepass(int rank) {
  int nw = myth_get_num_workers();
  if (nw <= 1) return 0;
  int v = myth_wsapi_rand();
  if (v == rank) return 0;
  myth_thread_t t = myth_wsapi_runqueue_take(v, 0, 0);
  if (!t) return 0;
  if (nw >= 3 && mvsim_rng_below(&user_rng, 1000) < 500) {
    int tgt = myth_wsapi_rand();
    if (tgt != rank && tgt != v && myth_wsapi_runqueue_pass(tgt, t)) { mvh_counter[mvh_counter_id("passes")]++; return 0; }
  }
  return t;
}

/* stealfn 4: owner-side operations from user code: a stolen thread is sometimes parked in the thief's own run queue
   (myth_wsapi_runqueue_push) instead of being run at once, and the steal function sometimes serves the own queue
   first (myth_wsapi_runqueue_pop) */
static myth_thread_t steal_pushpop(int rank) {
  int nw = myth_get_num_workers();
  uint64_t c = mvsim_rng_below(&user_rng, 1000);
  if (c < 250) { myth_thread_t own = myth_wsapi_runqueue_pop(); if (own) { mvh_counter[mvh_counter_id("own_pops")]++; return own; } }
  if (nw <= 1) return 0;
  int v = myth_wsapi_rand();
  if (v == rank) return 0;
  myth_thread_t t = myth_wsapi_runqueue_take(v, 0, 0);
  if (!t) return 0;
  if (c >= 700) { myth_wsapi_runqueue_push(t); mvh_counter[mvh_counter_id("own_pushes")]++; return 0; }
  return t;
}

static void wait_all_finished(void) {
  for (;;) {
    int all = 1;
    for (int i = 1; i < nn; i++) if (!N[i].finished) { all = 0; break; }
    if (all) break;
    /* serve our own run queue, then wait for somebody else to make progress.  (Not mvsim_quiesce():
       that parks this worker until all others idle, but unfinished threads may sit in THIS worker's
       queue while the other workers poll for them in timedjoin/tryjoin loops for ever.) */
    myth_yield_ex(myth_yield_option_local_first);
    mvsim_user_spin();
  }
  mvsim_quiesce();
}

static void run(const long *p, mvsim_runcfg *cfg, mvsim_runstats *st) {
  P = p;
  build_tree();
  if (!bufpool) bufpool = malloc(sizeof(uint64_t) * 16 * MAXN);
  for (int i = 0; i < nn; i++) { N[i].buf = bufpool + 16 * i; memset(N[i].buf, 0, 16 * sizeof(uint64_t)); }
  mvsim_rng_seed(&user_rng, (uint64_t)p[P_TREESEED], 99);
  cfg->queue_size = (int)p[P_QUEUE_SIZE];
  cfg->budget1 = 60000 + 3000 * (uint64_t)p[P_NTHREADS];
  cfg->budget2 = 2000000 + 20000 * (uint64_t)p[P_NTHREADS];
  setenv("MYTH_CHILD_FIRST", p[P_PARENT_FIRST] ? "0" : "1", 1);
  myth_globalattr_t ga;
  mvsim_set_probe_cb(probe_cb);
  mvsim_begin_run(cfg);
  myth_globalattr_init(&ga);
  myth_globalattr_set_n_workers(&ga, (size_t)p[P_NWORKERS]);
  myth_globalattr_set_stacksize(&ga, (size_t)p[P_DEF_STACK_KB] * 1024 + (size_t)p[P_STACK_EXTRA]);
  myth_globalattr_set_bind_workers(&ga, 0);
  myth_init_ex(&ga);
  MVH_CHECK(myth_get_num_workers() == p[P_NWORKERS], "C15-NWORKERS", "myth_get_num_workers()=%d, requested %ld", myth_get_num_workers(), p[P_NWORKERS]);
  myth_steal_func_t prev = 0;
  switch (p[P_STEALFN]) {
    case 1: prev = myth_wsapi_set_stealfunc(steal_decline); break;
    case 2: prev = myth_wsapi_set_stealfunc(steal_peektake); break;
    case 3: prev = myth_wsapi_set_stealfunc(steal_takepass); break;
    case 4: prev = myth_wsapi_set_stealfunc(steal_pushpop); break;
  }
  N[0].invoked = 1;
  body(&N[0]);
  N[0].finished = 1;
  wait_all_finished();
  if (prev) myth_wsapi_set_stealfunc(prev);
  /* final oracle */
  for (int i = 1; i < nn; i++) {
    MVH_CHECK(N[i].invoked == 1, "C01-NEVER-RAN", "node %d never ran", i);
    MVH_CHECK(N[i].finished == 1, "C01-NEVER-FINISHED", "node %d did not finish", i);
  }
  /* ledger at quiescence (C12/C13) */
  long live_stacks = mvsim_ledger_allocated(MYTH_VK_STACK);
  long live_desc = mvsim_ledger_allocated(MYTH_VK_DESC);
  MVH_CHECK(live_stacks == 0, "C13-LEAK-STACK", "%ld stacks still allocated at quiescence although every thread finished", live_stacks);
  MVH_CHECK(live_desc == 1 + n_nullid, "C13-LEAK-RECORD", "%ld thread records still allocated at quiescence; expected %d (main + %d never-reaped threads; %d threads were detached through the attribute)", live_desc, 1 + n_nullid, n_nullid, n_attr_detach);
  mvsim_ledger_stats ls; mvsim_ledger_get(&ls);
  if (p[P_NWORKERS] == 1) {
    MVH_CHECK(ls.desc_fresh <= ls.peak_live_desc + 1, "C13-NO-RECYCLE", "one worker: %llu fresh records for a peak of %llu live", (unsigned long long)ls.desc_fresh, (unsigned long long)ls.peak_live_desc);
    unsigned long long fr, pk; int k = mvsim_ledger_fresh_excess(1, &fr, &pk);
    MVH_CHECK(k < 0, "C13-NO-RECYCLE", "one worker: %llu fresh stacks of size class %d for a peak of %llu live", fr, k, pk);
  }
  uint64_t blocked = mvsim_probe_count(MYTH_VP_JOIN_NEXT) + mvsim_probe_count(MYTH_VP_JOIN_SCHED);
  uint64_t steals = mvsim_probe_count(MYTH_VP_STEAL_HIT);
  if (blocked || steals) mvh_run_flags |= 1;
  if (mvsim_probe_count(MYTH_VP_RECENTRE_DOWN) + mvsim_probe_count(MYTH_VP_RECENTRE_UP)) mvh_run_flags |= 2;
  myth_fini();
  MVH_CHECK(mvsim_n_workers_done() == mvsim_n_workers_spawned(), "C15-FINI", "after myth_fini %d of %d workers have stopped", mvsim_n_workers_done(), mvsim_n_workers_spawned());
  mvsim_end_run(st);
  mvsim_set_probe_cb(0);
  mvsim_ledger_release_all();
}

const mvh_class wl_forkjoin = { "forkjoin", P_NPARAMS, pnames, gen, run, 0, describe };
