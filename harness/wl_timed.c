/* wl_timed.c -- class "timed" (C20): sleeps, timed lock, timed join against the virtual clock */
#define _GNU_SOURCE
#include <stdlib.h>
#include <string.h>
#include <errno.h>
#include <unistd.h>
#include "myth/myth.h"
#include "mvh.h"
#include "wl_common.h"
#define MYTH_VERIF 1
#include "myth_verif.h"

enum { Q_NWORKERS, Q_QSIZE, Q_PFIRST, Q_YIELD_PM, Q_SEED, T_MODE, T_NCALLS, T_NSIB, T_DURCLASS, T_HOLD, T_NP };
static const char *const names[] = { "nworkers", "queue_size", "parent_first", "yield_pm", "seed", "mode", "ncalls", "nsib", "durclass", "hold" };
static const long *P;
static volatile long sib_progress; static volatile int sib_stop;
static myth_mutex_t TM; static volatile int tm_occ, tm_interest; static volatile long tm_enter;
static volatile int tgt_go, tgt_finished, tgt_published;
static myth_thread_t tgt_thread;
static void timed_probe_cb(int site, const void *p, uint64_t step) { (void)step; if (site == MYTH_VP_FREE_READY2 && p == (const void *)tgt_thread) tgt_published = 1; }
#define NS 1000000000ULL
static uint64_t clk_div;

static void gen(mvsim_rng *r, long *p, int tier) {
  wl_gen_common(r, &p[Q_NWORKERS], &p[Q_QSIZE], &p[Q_PFIRST], 16);
  if (mvh_chance(r, 400)) p[Q_NWORKERS] = 1;
  p[Q_YIELD_PM] = 300; p[Q_SEED] = (long)(mvsim_rng_next(r) >> 20);
  p[T_MODE] = mvh_range(r, 0, 3);
  p[T_NCALLS] = mvh_range(r, 1, tier ? 8 : 4);
  p[T_NSIB] = mvh_range(r, 0, 3);
  p[T_DURCLASS] = mvh_range(r, 0, 7);
  p[T_HOLD] = mvh_range(r, 0, 12);
  if (p[T_MODE] == 3) { p[Q_NWORKERS] = 2; p[Q_PFIRST] = 0; p[T_NSIB] = 0; p[T_NCALLS] = 1; if (p[T_DURCLASS] % 8 < 3) p[T_DURCLASS] = 3 + p[T_DURCLASS] % 3; }
}
static void *sibling(void *a) {
  while (!sib_stop) { sib_progress++; myth_yield(); mvsim_user_point(); }
  return a;
}
/* duration of call i (nanoseconds); classes from zero to seconds, with boundary nanosecond fields */
static uint64_t duration(long i) {
  uint64_t h = wl_mix(P[Q_SEED], 40 + i);
  /* at most one decades-long wait per run, and it is the last call (the 64-bit nanosecond clock would overflow otherwise) */
  switch (i == P[T_NCALLS] - 1 ? P[T_DURCLASS] % 8 : (P[T_DURCLASS] + i) % 6) {
    /* very long waits (decades): the virtual clock makes them cheap */
    case 6: return NS * (2147483646ULL + h % 5);                 /* around 2^31 seconds */
    case 7: return (h & 1) ? NS * 4294967295ULL : NS * 3153600000ULL + (h >> 4) % NS;   /* UINT_MAX s, 100 years */
    case 0: return 0;
    case 1: return 1 + h % 3;
    case 2: return 999999999ULL - h % 2;
    case 3: return NS * (1 + h % 3) + ((h >> 8) % 2 ? 999999999ULL : 0);
    case 4: return 1000 * (1 + h % 5000);
    default: return 1000000 * (1 + h % 900);
  }
}
static void set_scale(long i) {
  uint64_t d = duration(i);
  mvsim_set_clock_scale(d / clk_div + 1, d > 1000000000000ULL ? d / 2 : d * 3 + 1);
}
static void do_sleep(long i) {
  uint64_t h = wl_mix(P[Q_SEED], 90 + i), d = duration(i);
  int api = (int)(h % 4);
  long p0 = sib_progress; uint64_t r0 = mvsim_clock_reads();
  uint64_t t0 = mvsim_now_ns();
  if (api == 3) {   /* malformed requests must be rejected */
    struct timespec bad; static const long bn[] = { -1, 1000000000L, 2000000000L, -999999999L };
    bad.tv_sec = (h >> 8) % 2; bad.tv_nsec = bn[(h >> 12) % 4];
    if ((h >> 20) % 3 == 0) { bad.tv_sec = -1 - (long)((h >> 24) % 5); bad.tv_nsec = (h >> 30) % 2 ? 0 : 999999999L; }
    /* the remainder argument: absent, a separate object, or the request object itself (the retry idiom
       nanosleep(&ts, &ts); the prototype has no restrict) */
    struct timespec rem0 = { 77, 77 }, bad0 = bad;
    int remk = (int)((h >> 40) % 3);
    int rc = myth_nanosleep(&bad, remk == 0 ? 0 : remk == 1 ? &rem0 : &bad);
    MVH_CHECK(rc == EINVAL, "C20-EINVAL", "myth_nanosleep({%ld,%ld}%s) returned %d instead of EINVAL", (long)bad0.tv_sec, bad0.tv_nsec, remk == 2 ? ", remainder = the request object" : "", rc);
    return;
  }
  if (api == 0) {
    struct timespec rq = { (time_t)(d / NS), (long)(d % NS) }, rem0 = { 77, 77 };
    int remk = (int)((h >> 40) % 3);
    int rc = myth_nanosleep(&rq, remk == 0 ? 0 : remk == 1 ? &rem0 : &rq);
    MVH_CHECK(rc == 0, "C20-RC", "myth_nanosleep({%ld,%ld}) returned %d", (long)(d / NS), (long)(d % NS), rc);
  } else if (api == 1) {
    uint64_t us = d / 1000; if (us > 4000000000ULL) us = 4000000000ULL; d = us * 1000;
    int rc = myth_usleep((useconds_t)us);
    MVH_CHECK(rc == 0, "C20-RC", "myth_usleep(%llu) returned %d", (unsigned long long)us, rc);
  } else {
    uint64_t s = d / NS; if (s > 3 && s < 1000000) s = 3; d = s * NS;
    unsigned rc = myth_sleep((unsigned)s);
    MVH_CHECK(rc == 0, "C20-RC", "myth_sleep(%llu) returned %u", (unsigned long long)s, rc);
  }
  uint64_t t1 = mvsim_now_ns();
  MVH_CHECK(t1 - t0 >= d, "C20-SLEEP-EARLY", "sleep of %llu ns returned after %llu ns of virtual time", (unsigned long long)d, (unsigned long long)(t1 - t0));
  if (P[Q_NWORKERS] == 1 && P[T_NSIB] > 0 && mvsim_clock_reads() - r0 >= 3)
    MVH_CHECK(sib_progress > p0, "C20-SLEEP-HOGS", "a sleeping thread polled the clock %llu times on the only worker while a runnable sibling made no progress", (unsigned long long)(mvsim_clock_reads() - r0));
  mvh_counter[mvh_counter_id("sleeps")]++;
}
/* mode 3: "lets other runnable threads use the worker": the only other worker is occupied by a thread
   that never yields, and a runnable thread (the main thread's continuation) sits in that worker's
   queue while this thread sleeps.  The sleeping thread's worker is the only one that can run it. */
static volatile int st_b_running, st_sleep_done, st_main_back_during_sleep;
static volatile uint64_t st_polls;
static void *st_sleeper(void *a) {
  while (!st_b_running) mvsim_user_point();      /* never yields: the creator's continuation can only leave by being stolen */
  uint64_t r0 = mvsim_clock_reads();
  do_sleep(0);
  st_polls = mvsim_clock_reads() - r0;
  st_sleep_done = 1;
  return a;
}
static void *st_blocker(void *a) {
  st_b_running = 1;
  while (!st_sleep_done) mvsim_user_point();      /* occupies its worker for the whole sleep */
  return a;
}
static void do_sleep_steal(void) {
  st_b_running = st_sleep_done = st_main_back_during_sleep = 0; st_polls = 0;
  int w0 = myth_get_worker_num();
  myth_thread_t s = myth_create(st_sleeper, 0);   /* child first: the sleeper runs here, we are stolen by the other worker */
  int w1 = myth_get_worker_num();
  myth_thread_t b = myth_create(st_blocker, 0);   /* child first: the blocker runs there, our continuation waits in that worker's queue */
  st_main_back_during_sleep = !st_sleep_done;
  void *r; myth_join(s, &r); myth_join(b, &r);
  if (w0 != w1 && st_polls >= 32)
    MVH_CHECK(st_main_back_during_sleep, "C20-SLEEP-HOGS-WORKER", "a thread slept through %llu clock polls while a runnable thread waited in the queue of the only other (busy) worker: the sleeper's worker ran nothing else",
              (unsigned long long)st_polls);
  mvh_counter[mvh_counter_id("sleep_steal_runs")]++;
}
static void *holder(void *a) {
  tm_interest++; tm_enter++;
  myth_mutex_lock(&TM);
  tm_occ++;
  for (long k = 0; k < P[T_HOLD]; k++) { myth_yield(); mvsim_user_point(); }
  tm_occ--;
  myth_mutex_unlock(&TM);
  tm_interest--;
  return a;
}
/* attempt > 0 (retry after a timeout): short waits only, and the clock is rescaled to them -- repeating a
   decades-long deadline would walk the 64-bit nanosecond clock off its end */
static void deadline_for2(long i, int attempt, struct timespec *dl, uint64_t *dl_ns);
static void deadline_for(long i, struct timespec *dl, uint64_t *dl_ns) { deadline_for2(i, 0, dl, dl_ns); }
static void deadline_for2(long i, int attempt, struct timespec *dl, uint64_t *dl_ns) {
  uint64_t h = wl_mix(P[Q_SEED], 140 + i + 1000 * (uint64_t)attempt), now = mvsim_now_ns(), d = duration(i);
  if (attempt > 0) {
    d = 1000 * (1 + h % 5000);
    mvsim_set_clock_scale(d / clk_div + 1, d * 3 + 1);
  }
  uint64_t t;
  switch (h % 4) { case 0: t = now > d + 1 ? now - d - 1 : 0; break;   /* past */
                   case 1: t = now; break;                              /* present */
                   default: t = now + d; }                              /* future */
  dl->tv_sec = (time_t)(t / NS); dl->tv_nsec = (long)(t % NS); *dl_ns = t;
}
static void do_timedlock(long i) {
  struct timespec dl; uint64_t dl_ns;
  int with_holder = (int)(wl_mix(P[Q_SEED], 190 + i) % 3) != 0;
  myth_thread_t ht = 0;
  if (with_holder) { ht = myth_create(holder, 0); if (wl_mix(P[Q_SEED], 200 + i) & 1) myth_yield(); }
  deadline_for(i, &dl, &dl_ns);
  int o0 = tm_interest; long e0 = tm_enter;
  int rc = myth_mutex_timedlock(&TM, &dl);
  if (rc == 0) {
    tm_occ++;
    MVH_CHECK(tm_occ == 1, "C04-MUTEX", "timedlock succeeded while the mutex is held (occupancy %d)", tm_occ);
    mvsim_user_point();
    tm_occ--;
    myth_mutex_unlock(&TM);
  } else {
    MVH_CHECK(rc == ETIMEDOUT, "C20-TIMEDLOCK-RC", "myth_mutex_timedlock returned %d", rc);
    MVH_CHECK(mvsim_last_clock_ns() > dl_ns, "C20-TIMEDLOCK-EARLY", "timedlock timed out at %llu ns, deadline %llu ns", (unsigned long long)mvsim_last_clock_ns(), (unsigned long long)dl_ns);
    MVH_CHECK(o0 > 0 || tm_enter != e0, "C20-TIMEDLOCK-FREE", "timedlock timed out although the mutex was free during the whole call");
    mvh_counter[mvh_counter_id("timedlock_timeouts")]++;
  }
  if (ht) { void *r; myth_join(ht, &r); }
}
static void *target(void *a) {
  for (long k = 0; k < P[T_HOLD]; k++) { myth_yield(); mvsim_user_point(); }
  tgt_finished = 1;
  return a;
}
static void do_timedjoin(long i) {
  struct timespec dl; uint64_t dl_ns;
  tgt_finished = 0; tgt_published = 0; tgt_thread = 0;
  myth_thread_t t = myth_create(target, (void *)(i + 11));
  tgt_thread = t;
  if (tgt_finished) tgt_published = 0;  /* finished before we learned its id: cannot tell, stay conservative */
  int wait_first = (int)(wl_mix(P[Q_SEED], 260 + i) % 3) == 0;
  if (wait_first) {      /* let the target finish completely (result published) before the call */
    int spins = 0;
    while (!tgt_published && spins++ < 200) { myth_yield(); mvsim_user_point(); }
  }
  int certainly_done = tgt_published;
  for (int attempt = 0; ; attempt++) {
    deadline_for2(i, attempt, &dl, &dl_ns);
    void *r = 0;
    int rc = myth_timedjoin(t, &r, &dl);
    if (rc == 0) { MVH_CHECK(r == (void *)(i + 11) && tgt_finished, "C01-JOIN-VALUE", "timedjoin value %p finished=%d", r, tgt_finished); break; }
    MVH_CHECK(rc == EBUSY || rc == ETIMEDOUT, "C20-TIMEDJOIN-RC", "myth_timedjoin returned %d", rc);
    MVH_CHECK(!certainly_done, "C20-TIMEDJOIN-DONE", "timedjoin timed out although the thread had finished before the call");
    MVH_CHECK(mvsim_last_clock_ns() > dl_ns, "C20-TIMEDJOIN-EARLY", "timedjoin gave up at %llu ns, deadline %llu ns", (unsigned long long)mvsim_last_clock_ns(), (unsigned long long)dl_ns);
    mvh_counter[mvh_counter_id("timedjoin_timeouts")]++;
    myth_yield();
  }
}
static void run(const long *p, mvsim_runcfg *cfg, mvsim_runstats *st) {
  P = p;
  sib_progress = 0; sib_stop = 0; tm_occ = tm_interest = 0; tm_enter = 0;
  /* the virtual clock is scaled PER CALL so that each wait costs 5..300 clock reads (set_scale() below).
     (One scale for the whole run, derived from the longest wait, let the short calls before a
     decades-long one each push the 64-bit nanosecond clock forward by ~10^18: it wrapped around, time
     ran backwards and the last sleep never ended -- a false HANG found by the thorough soak.) */
  clk_div = 5 + wl_mix(p[Q_SEED], 3) % 300;
  if (p[T_MODE] == 3 && clk_div < 80) clk_div += 80;
  cfg->clk_read_ns = duration(0) / clk_div + 1;
  cfg->clk_jump_ns = duration(0) * 3 + 1;
  cfg->budget1 += 200000; cfg->budget2 += 2000000;
  wl_begin(cfg, p[Q_NWORKERS], 32, p[Q_QSIZE], (int)p[Q_PFIRST]);
  wl_set_probe_cb(timed_probe_cb);
  myth_mutex_init(&TM, 0);
  myth_thread_t sib[4];
  for (long i = 0; i < p[T_NSIB]; i++) sib[i] = myth_create(sibling, 0);
  for (long i = 0; i < p[T_NCALLS]; i++) {
    int mode = (int)p[T_MODE];
    set_scale(i);
    if (mode == 3 && !(p[Q_NWORKERS] == 2 && !p[Q_PFIRST] && p[T_NSIB] == 0)) mode = 0;   /* overrides/shrinking broke the set-up */
    switch (mode) { case 0: do_sleep(i); break; case 1: do_timedlock(i); break; case 3: do_sleep_steal(); break; default: do_timedjoin(i); }
    mvsim_user_point();
  }
  sib_stop = 1;
  for (long i = 0; i < p[T_NSIB]; i++) { void *r; myth_join(sib[i], &r); }
  myth_mutex_destroy(&TM);
  if (mvsim_clock_reads() > 0) mvh_run_flags |= 1;
  wl_end(st, 1);
}
const mvh_class wl_timed = { "timed", T_NP, names, gen, run, 0, 0 };
