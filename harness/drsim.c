/* drsim.c -- serial simulator of a W-worker task-parallel execution for the DAG Recorder (C18, C19).
 *
 * Real code: all of /repo/src/profiler (dag_recorder_inl.h, dag_recorder.c, dr_dump.c, read_dag.c,
 * gen_stat.c, gen_text.c, chronological.c, ...).  Stub: the tasking runtime -- a virtual greedy
 * work-stealing scheduler with a discrete-event virtual clock executes a generated program and calls
 * the dr_*__ instrumentation entry points (which take the worker id explicitly) in an order a real
 * execution could produce.  The recorder's clock (dr_get_tsc) is the acting virtual worker's time.
 */
#define _GNU_SOURCE
#include <stdio.h>
#include <stdlib.h>
#include <string.h>
#include <unistd.h>
#include <sys/stat.h>
#include <stddef.h>
#define DAG_RECORDER 2
#include "dag_recorder_impl.h"
#include "mvh.h"

extern unsigned long long (*myth_verif_dr_clock)(void);
extern uint32_t mvh_run_flags;
const char *mvh_harness_name = "drsim";

/* ------------------------------------------------------------------ */
/* program                                                             */
/* ------------------------------------------------------------------ */
enum { EV_CREATE, EV_WAIT, EV_OTHER, EV_BEGIN, EV_END };
typedef struct { int kind; long len; int child; long rt; int file; int line; } ev_t;
typedef struct { int nev, cap; ev_t *ev; } ptask;
#define MAXTASK 420
static ptask PT[MAXTASK];
static int nptask;
static const long *P;
enum { D_NTASKS, D_NWORKERS, D_SEED, D_POLICY, D_ZERO_PM, D_LENCLASS, D_NFILES, D_OPTSEED, D_NSETTINGS, D_WIDE, D_NP };
static const char *const pnames[] = { "ntasks", "nworkers", "seed", "policy", "zero_pm", "lenclass", "nfiles", "optseed", "nsettings", "wide" };
static char filenames[50][24];

static void ev_push(ptask *t, ev_t e) {
  if (t->nev == t->cap) { t->cap = t->cap ? t->cap * 2 : 8; t->ev = realloc(t->ev, sizeof(ev_t) * t->cap); }
  t->ev[t->nev++] = e;
}
static long gen_len(uint64_t h) {
  if ((int)(h % 1000) < P[D_ZERO_PM]) return 0;
  switch (P[D_LENCLASS] % 3) { case 0: return 1 + (long)((h >> 10) % 20); case 1: return 1 + (long)((h >> 10) % 2000); default: return 1 + (long)((h >> 10) % 1000000); }
}
/* generate task `me`; budget = how many further tasks may be created in this subtree */
static void gen_task(int me, uint64_t *x, int *budget, int depth) {
  ptask *t = &PT[me];
  t->nev = 0;
  int open = 0, nfiles = (int)(P[D_NFILES] < 1 ? 1 : P[D_NFILES] > 50 ? 50 : P[D_NFILES]);
  int steps = 1 + (int)(mvsim_splitmix(x) % 9);
  int created_here[8] = { 0 };
  if (me == 0 && P[D_WIDE] > 0) {
    /* a wide section first: the root creates many trivial children before it waits (under the help-first policy
       they are all ready at the same instant: wide DAGs, long ready lists in every consumer of the file) */
    long wide = P[D_WIDE]; if (wide > MAXTASK - 8 - *budget) wide = MAXTASK - 8 - *budget;
    { ev_t b; memset(&b, 0, sizeof b); b.kind = EV_BEGIN; ev_push(t, b); }
    for (long w = 0; w < wide && nptask < MAXTASK - 1; w++) {
      uint64_t h = mvsim_splitmix(x);
      ev_t e; memset(&e, 0, sizeof e);
      e.len = gen_len(h); e.file = (int)((h >> 20) % (uint64_t)nfiles); e.line = 1 + (int)((h >> 30) % 500);
      int child = nptask++;
      e.kind = EV_CREATE; e.child = child; ev_push(t, e);
      ptask *c = &PT[child]; c->nev = 0;
      ev_t ce; memset(&ce, 0, sizeof ce); uint64_t h2 = mvsim_splitmix(x);
      if (h2 & 1) { ce.kind = EV_OTHER; ce.len = gen_len(h2 >> 3); ce.rt = (long)((h2 >> 50) % 50); ce.file = (int)((h2 >> 20) % (uint64_t)nfiles); ce.line = 3; ev_push(c, ce); }
      memset(&ce, 0, sizeof ce); ce.kind = EV_END; ce.len = gen_len(h2 >> 7); ce.file = (int)((h2 >> 24) % (uint64_t)nfiles); ce.line = 9; ev_push(c, ce);
      t = &PT[me];
    }
    { uint64_t h = mvsim_splitmix(x); ev_t e; memset(&e, 0, sizeof e); e.kind = EV_WAIT; e.len = gen_len(h); e.file = (int)((h >> 20) % (uint64_t)nfiles); e.line = 5; ev_push(t, e); }
  }
  for (int s = 0; s < steps; s++) {
    uint64_t h = mvsim_splitmix(x);
    ev_t e; memset(&e, 0, sizeof e);
    e.len = gen_len(mvsim_splitmix(x)); e.file = (int)((h >> 20) % (uint64_t)nfiles); e.line = 1 + (int)((h >> 30) % 500);
    int c = (int)(h % 10);
    if (c <= 4 && *budget > 0 && depth < 12 && nptask < MAXTASK - 1) {          /* create */
      if (open == 0 && (h >> 40) % 3) { ev_t b; memset(&b, 0, sizeof b); b.kind = EV_BEGIN; ev_push(t, b); open = 1; }
      if (open == 0) open = 1;       /* dr_enter_create_task ensures a section */
      int child = nptask++; (*budget)--;
      e.kind = EV_CREATE; e.child = child; ev_push(t, e);
      created_here[open < 8 ? open : 7]++;
      int sub = *budget > 0 ? (int)(mvsim_splitmix(x) % (uint64_t)(*budget + 1)) : 0;
      int rest = *budget - sub; int b2 = sub;
      gen_task(child, x, &b2, depth + 1);
      *budget = rest + b2;
      t = &PT[me];
    } else if (c == 5 && open > 0 && open < 4) {                                 /* nested section */
      ev_t b; memset(&b, 0, sizeof b); b.kind = EV_BEGIN; ev_push(t, b); open++;
    } else if (c <= 7 && open > 0) {                                             /* wait: closes the innermost section */
      e.kind = EV_WAIT; ev_push(t, e); open--;
    } else if (c == 8 && open == 0 && (h >> 45) % 2) {                           /* wait without children */
      e.kind = EV_WAIT; ev_push(t, e);
    } else {                                                                     /* other */
      e.kind = EV_OTHER; e.rt = (long)((h >> 50) % 50); ev_push(t, e);
    }
  }
  while (open > 0) { ev_t e; memset(&e, 0, sizeof e); uint64_t h = mvsim_splitmix(x); e.kind = EV_WAIT; e.len = gen_len(h); e.file = (int)((h >> 20) % (uint64_t)nfiles); e.line = 7; ev_push(t, e); open--; }
  { ev_t e; memset(&e, 0, sizeof e); uint64_t h = mvsim_splitmix(x); e.kind = EV_END; e.len = gen_len(h); e.file = (int)((h >> 20) % (uint64_t)nfiles); e.line = 9; ev_push(t, e); }
}
static void gen_program(void) {
  for (int i = 0; i < 50; i++) snprintf(filenames[i], sizeof filenames[i], "src_%02d_file.c", i);
  uint64_t x = (uint64_t)P[D_SEED] * 2654435761ULL + 17;
  nptask = 1;
  int budget = (int)P[D_NTASKS] - 1; if (budget > MAXTASK - 2) budget = MAXTASK - 2; if (budget < 0) budget = 0;
  gen_task(0, &x, &budget, 0);
}

/* ------------------------------------------------------------------ */
/* independent oracle: work, critical path, counts from the program    */
/* ------------------------------------------------------------------ */
typedef struct { unsigned long long t1, tinf; long nodes[4]; long edges[5]; } totals;
/* critical path of task ti: walk its events with an explicit section stack */
static unsigned long long oracle_task(int ti, totals *acc) {
  ptask *t = &PT[ti];
  /* stack of open sections: chain = sum of sequential t_inf so far in that section, best = max over children */
  unsigned long long chain[16], best[16]; long nchild[16]; int sp = 0;
  chain[0] = best[0] = 0; nchild[0] = 0;     /* level 0 = the task itself */
  for (int k = 0; k < t->nev; k++) {
    ev_t *e = &t->ev[k];
    switch (e->kind) {
      case EV_BEGIN: sp++; chain[sp] = best[sp] = 0; nchild[sp] = 0; break;
      case EV_CREATE: {
        if (sp == 0) { sp = 1; chain[1] = best[1] = 0; nchild[1] = 0; }   /* implicit section */
        acc->t1 += (unsigned long long)e->len; acc->nodes[dr_dag_node_kind_create_task]++;
        acc->edges[dr_dag_edge_kind_create]++; acc->edges[dr_dag_edge_kind_create_cont]++;
        chain[sp] += (unsigned long long)e->len;
        unsigned long long c = oracle_task(e->child, acc);
        if (chain[sp] + c > best[sp]) best[sp] = chain[sp] + c;
        nchild[sp]++;
        break;
      }
      case EV_WAIT: {
        if (sp == 0) { sp = 1; chain[1] = best[1] = 0; nchild[1] = 0; }
        acc->t1 += (unsigned long long)e->len; acc->nodes[dr_dag_node_kind_wait_tasks]++;
        chain[sp] += (unsigned long long)e->len;
        unsigned long long s_inf = chain[sp] > best[sp] ? chain[sp] : best[sp];
        acc->edges[dr_dag_edge_kind_wait_cont]++; acc->edges[dr_dag_edge_kind_end] += nchild[sp];
        sp--;
        chain[sp] += s_inf;      /* the section is one sequential element of its parent */
        break;
      }
      case EV_OTHER:
        acc->t1 += (unsigned long long)e->len; acc->nodes[dr_dag_node_kind_other]++; acc->edges[dr_dag_edge_kind_other_cont]++;
        chain[sp] += (unsigned long long)e->len;
        break;
      case EV_END:
        acc->t1 += (unsigned long long)e->len; acc->nodes[dr_dag_node_kind_end_task]++;
        chain[sp] += (unsigned long long)e->len;
        break;
    }
  }
  return chain[0] > best[0] ? chain[0] : best[0];
}

/* ------------------------------------------------------------------ */
/* virtual scheduler                                                   */
/* ------------------------------------------------------------------ */
enum { IT_START, IT_CONT_CREATE, IT_CONT_WAIT, IT_CONT_OTHER };
typedef struct { int vt; int kind; unsigned long long ready; } item;
typedef struct {
  int pt, pc;
  dr_dag_node *dn;          /* the task node as returned by dr_enter_* (needed by dr_return_from_*) */
  dr_dag_node *create_node; /* parent's create interval (argument of dr_start_task) */
  int parent, plevel;       /* parent virtual task and section level the create belongs to */
  int sp; int pend[16];     /* pending children per open section level */
  int waiting_level;        /* -1: not suspended */
  int done;
} vtask;
typedef struct { unsigned long long clock; int cur; item dq[512]; int dqn; } vworker;
static vtask VT[MAXTASK]; static int nvt;
static vworker VW[8]; static int NW;
static unsigned long long clk_now;
static mvsim_rng srng;
static unsigned long long hook_work; static long hook_nodes[4];
static long n_steals, n_migrations;
static const char *fail_cls; static char fail_msg[400];
static void fail(const char *cls, const char *msg) { if (!fail_cls) { fail_cls = cls; snprintf(fail_msg, sizeof fail_msg, "%s", msg); } }

static unsigned long long vclock(void) { return clk_now; }
static int hook_interval(dr_dag_node *n) {
  if (n->info.kind < dr_dag_node_kind_section) { hook_work += n->info.end.t - n->info.start.t; hook_nodes[n->info.kind]++; }
  return 0;
}
static void dq_push(vworker *w, item it) { if (w->dqn < 512) w->dq[w->dqn++] = it; else fail("INFRA", "virtual deque overflow"); }

static void child_finished(int vt, int w) {
  vtask *c = &VT[vt];
  c->done = 1;
  if (c->parent < 0) return;
  vtask *p = &VT[c->parent];
  p->pend[c->plevel]--;
  if (p->waiting_level == c->plevel && p->pend[c->plevel] == 0) {
    p->waiting_level = -1;
    item it = { c->parent, IT_CONT_WAIT, VW[w].clock };
    dq_push(&VW[w], it);
  }
}
/* execute the next event of the task running on worker w */
static void step_task(int w) {
  vworker *W = &VW[w]; vtask *t = &VT[W->cur]; ptask *pt = &PT[t->pt]; ev_t *e = &pt->ev[t->pc++];
  const char *file = filenames[e->file]; int line = e->line;
  if (e->kind != EV_BEGIN) W->clock += (unsigned long long)e->len;
  clk_now = W->clock;
  switch (e->kind) {
    case EV_BEGIN: dr_begin_section__(w); t->sp++; t->pend[t->sp] = 0; break;
    case EV_CREATE: {
      if (t->sp == 0) { t->sp = 1; t->pend[1] = 0; }
      dr_dag_node *ci = 0;
      t->dn = dr_enter_create_task__(&ci, file, line, w);
      int cv = nvt++; vtask *c = &VT[cv]; memset(c, 0, sizeof *c);
      c->pt = e->child; c->create_node = ci; c->parent = W->cur; c->plevel = t->sp; c->waiting_level = -1;
      t = &VT[W->cur];
      t->pend[t->sp]++;
      W->clock += mvsim_rng_below(&srng, 3);           /* runtime overhead of the creation */
      if (P[D_POLICY] == 0) {                           /* work-first: run the child, continuation is stealable */
        item it = { W->cur, IT_CONT_CREATE, W->clock }; dq_push(W, it);
        W->cur = cv; clk_now = W->clock;
        dr_start_task__(ci, filenames[PT[c->pt].ev[0].file], 1, w);
      } else {                                          /* help-first: child is stealable, parent goes on */
        item it = { cv, IT_START, W->clock }; dq_push(W, it);
        clk_now = W->clock;
        dr_return_from_create_task__(t->dn, file, line, w);
      }
      break;
    }
    case EV_WAIT: {
      if (t->sp == 0) { t->sp = 1; t->pend[1] = 0; }
      t->dn = dr_enter_wait_tasks__(file, line, w);
      int lvl = t->sp; t->sp--;
      if (t->pend[lvl] == 0) { W->clock += mvsim_rng_below(&srng, 2); clk_now = W->clock; dr_return_from_wait_tasks__(t->dn, file, line, w); }
      else { t->waiting_level = lvl; W->cur = -1; }
      break;
    }
    case EV_OTHER: {
      t->dn = dr_enter_other__(file, line, w);
      item it = { W->cur, IT_CONT_OTHER, W->clock + (unsigned long long)e->rt }; dq_push(W, it);
      W->cur = -1;
      break;
    }
    case EV_END: {
      int me = W->cur;
      if (t->parent < 0) dr_stop__(file, line, w); else dr_end_task__(file, line, w);
      W->cur = -1;
      child_finished(me, w);
      break;
    }
  }
}
static void resume_item(int w, item it, int stolen) {
  vworker *W = &VW[w]; vtask *t = &VT[it.vt]; ptask *pt = &PT[t->pt];
  if (W->clock < it.ready) W->clock = it.ready;
  if (stolen) { W->clock += 1 + mvsim_rng_below(&srng, 20); n_steals++; }
  clk_now = W->clock;
  W->cur = it.vt;
  ev_t *prev = t->pc > 0 ? &pt->ev[t->pc - 1] : &pt->ev[0];
  const char *file = filenames[prev->file]; int line = prev->line;
  switch (it.kind) {
    case IT_START: dr_start_task__(t->create_node, filenames[pt->ev[0].file], 1, w); break;
    case IT_CONT_CREATE: dr_return_from_create_task__(t->dn, file, line, w); break;
    case IT_CONT_WAIT: dr_return_from_wait_tasks__(t->dn, file, line, w); break;
    case IT_CONT_OTHER: dr_return_from_other__(t->dn, file, line, w); break;
  }
}
static void simulate(dr_options *opts) {
  memset(VT, 0, sizeof VT); nvt = 1; VT[0].pt = 0; VT[0].parent = -1; VT[0].waiting_level = -1;
  for (int w = 0; w < NW; w++) { VW[w].clock = 1000 + (unsigned long long)w; VW[w].cur = -1; VW[w].dqn = 0; }
  mvsim_rng_seed(&srng, (uint64_t)P[D_SEED], 4711);
  hook_work = 0; memset(hook_nodes, 0, sizeof hook_nodes); n_steals = 0; n_migrations = 0;
  clk_now = VW[0].clock;
  /* the recorder is initialised once per process (with the maximum number of virtual workers);
     the contraction options are run-time settable fields of GS.opts */
  if (GS.initialized) {
    const char *keep = GS.opts.dag_file_prefix; (void)keep;
    GS.opts.dag_file_prefix = opts->dag_file_prefix; GS.opts.text_file_yes = opts->text_file_yes;
    GS.opts.uncollapse_min = opts->uncollapse_min; GS.opts.collapse_max = opts->collapse_max;
    GS.opts.node_count_target = opts->node_count_target; GS.opts.prune_threshold = opts->prune_threshold;
    GS.opts.collapse_max_count = opts->collapse_max_count;
  }
  dr_start__(opts, filenames[PT[0].ev[0].file], 1, 0, 8);
  VW[0].cur = 0;
  long guard = 0;
  while (!VT[0].done && !fail_cls) {
    if (++guard > 4000000) { fail("INFRA", "virtual scheduler does not terminate"); break; }
    /* the worker with the smallest clock acts (ties: lowest id) */
    int w = 0; for (int i = 1; i < NW; i++) if (VW[i].clock < VW[w].clock) w = i;
    vworker *W = &VW[w];
    if (W->cur >= 0) { step_task(w); continue; }
    if (W->dqn > 0) { item it = W->dq[--W->dqn]; if (it.ready > W->clock + 0 && it.kind == IT_CONT_OTHER) { /* not ready yet: wait for it */ } resume_item(w, it, 0); continue; }
    /* steal: random victim with a non-empty deque, oldest item */
    int cand[8], nc = 0; for (int i = 0; i < NW; i++) if (i != w && VW[i].dqn > 0) cand[nc++] = i;
    if (nc) {
      int v = cand[mvsim_rng_below(&srng, (uint64_t)nc)];
      item it = VW[v].dq[0]; memmove(&VW[v].dq[0], &VW[v].dq[1], sizeof(item) * (size_t)(VW[v].dqn - 1)); VW[v].dqn--;
      n_migrations++;
      resume_item(w, it, 1);
      continue;
    }
    /* nothing to do: idle until the next busy worker moves */
    unsigned long long m = ~0ULL; int busy = 0;
    for (int i = 0; i < NW; i++) if (VW[i].cur >= 0) { busy = 1; if (VW[i].clock < m) m = VW[i].clock; }
    if (!busy) { fail("INFRA", "virtual scheduler: nothing runnable but the root has not finished"); break; }
    W->clock = m + 1 + mvsim_rng_below(&srng, 5);
  }
}

/* ------------------------------------------------------------------ */
/* C19: structural validator and round trip                            */
/* ------------------------------------------------------------------ */
static long vs_start[1 << 16], vs_end[1 << 16];
typedef struct { void (*process_event)(chronological_traverser *, dr_event); dr_pi_dag *G; long running, ready, maxrun; } count_traverser;
static void count_event(chronological_traverser *ct_, dr_event ev) {
  count_traverser *ct = (count_traverser *)ct_;
  long i = ev.u - ct->G->T;
  if (i < 0 || i >= ct->G->n) { fail("C19-REPLAY", "chronological replay produced an event for a node outside the DAG"); return; }
  switch (ev.kind) {
    case dr_event_kind_ready: ct->ready++; break;
    case dr_event_kind_start: vs_start[i & 0xffff]++; ct->running++; ct->ready--; break;
    case dr_event_kind_end: vs_end[i & 0xffff]++; ct->running--; break;
    default: break;
  }
}
static int is_leaf(dr_pi_dag_node *u) { return u->info.kind < dr_dag_node_kind_section || u->subgraphs_begin_offset == u->subgraphs_end_offset; }
static void validate_pi_dag(dr_pi_dag *G, const char *what) {
  char m[300];
  long n = G->n, mm = G->m;
  if (n <= 0 || n >= (1 << 16)) { snprintf(m, sizeof m, "%s: node count %ld", what, n); fail("C19-STRUCT", m); return; }
  long *indeg = calloc((size_t)n, sizeof(long));
  for (long i = 0; i < n && !fail_cls; i++) {
    dr_pi_dag_node *u = &G->T[i];
    if (u->info.kind == dr_dag_node_kind_create_task) {
      long c = i + u->child_offset;
      if (c <= i || c >= n || G->T[c].info.kind != dr_dag_node_kind_task) { snprintf(m, sizeof m, "%s: create node %ld has child offset %ld pointing outside the DAG or not at a task", what, i, u->child_offset); fail("C19-STRUCT", m); }
    } else if (u->info.kind >= dr_dag_node_kind_section) {
      long a = i + u->subgraphs_begin_offset, b = i + u->subgraphs_end_offset;
      if (u->subgraphs_begin_offset != u->subgraphs_end_offset && (a <= i || b > n || a > b)) { snprintf(m, sizeof m, "%s: node %ld has subgraph offsets [%ld,%ld) outside the DAG", what, i, u->subgraphs_begin_offset, u->subgraphs_end_offset); fail("C19-STRUCT", m); }
    }
    if (u->edges_begin < 0 || u->edges_end > mm || u->edges_begin > u->edges_end) { snprintf(m, sizeof m, "%s: node %ld has edge range [%ld,%ld) outside [0,%ld)", what, i, u->edges_begin, u->edges_end, mm); fail("C19-STRUCT", m); }
    else for (long j = u->edges_begin; j < u->edges_end; j++) if (G->E[j].u != i) { snprintf(m, sizeof m, "%s: edge %ld in the range of node %ld has source %ld (edges not grouped by source)", what, j, i, G->E[j].u); fail("C19-STRUCT", m); break; }
  }
  long covered = 0;
  for (long j = 0; j < mm && !fail_cls; j++) {
    dr_pi_dag_edge *e = &G->E[j];
    if (e->u < 0 || e->u >= n || e->v < 0 || e->v >= n) { snprintf(m, sizeof m, "%s: edge %ld (%ld -> %ld) has an endpoint outside the DAG of %ld nodes", what, j, e->u, e->v, n); fail("C19-STRUCT", m); break; }
    if (j > 0 && (G->E[j - 1].u > e->u)) { snprintf(m, sizeof m, "%s: edges not sorted by source at %ld", what, j); fail("C19-STRUCT", m); break; }
    if (!is_leaf(&G->T[e->u]) || !is_leaf(&G->T[e->v])) { snprintf(m, sizeof m, "%s: edge %ld connects a non-leaf node", what, j); fail("C19-STRUCT", m); break; }
    if ((int)e->kind < 0 || e->kind >= dr_dag_edge_kind_max) { snprintf(m, sizeof m, "%s: edge %ld has kind %d", what, j, (int)e->kind); fail("C19-STRUCT", m); break; }
    indeg[e->v]++;
    if (j >= G->T[e->u].edges_begin && j < G->T[e->u].edges_end) covered++;
  }
  if (!fail_cls && covered != mm) { snprintf(m, sizeof m, "%s: %ld of %ld edges are not inside the edge range of their source node", what, mm - covered, mm); fail("C19-STRUCT", m); }
  /* every leaf except the very first one must be reachable (have a predecessor) */
  if (!fail_cls) {
    dr_pi_dag_node *first = dr_pi_dag_node_first(&G->T[0], G);
    long nleaf = 0;
    for (long i = 0; i < n; i++) if (is_leaf(&G->T[i])) {
      nleaf++;
      if (&G->T[i] != first && indeg[i] == 0) { snprintf(m, sizeof m, "%s: leaf node %ld has no incoming edge (unreachable)", what, i); fail("C19-STRUCT", m); break; }
    }
    /* chronological replay */
    if (!fail_cls) {
      memset(vs_start, 0, sizeof(long) * (size_t)n); memset(vs_end, 0, sizeof(long) * (size_t)n);
      count_traverser ct; ct.process_event = count_event; ct.G = G; ct.running = ct.ready = 0;
      dr_pi_dag_chronological_traverse(G, (chronological_traverser *)&ct);
      for (long i = 0; i < n && !fail_cls; i++) if (is_leaf(&G->T[i]) && (vs_start[i] != 1 || vs_end[i] != 1)) { snprintf(m, sizeof m, "%s: chronological replay started leaf %ld %ld time(s) and ended it %ld time(s)", what, i, vs_start[i], vs_end[i]); fail("C19-REPLAY", m); }
      if (!fail_cls && (ct.running != 0 || ct.ready != 0)) { snprintf(m, sizeof m, "%s: chronological replay finished with %ld running and %ld ready nodes", what, ct.running, ct.ready); fail("C19-REPLAY", m); }
    }
    (void)nleaf;
  }
  free(indeg);
}
/* byte comparison; bytes in [mask_off, mask_off+mask_len) are ignored (the two in-memory pointers
   I and C of the string-table header are written to the file but are meaningless there: the
   reader overwrites them) */
/* source positions: every file index must lie inside the string table, and a node of a converted
   (shrunk) DAG must name the same source files as the node of the input DAG it was copied from */
typedef struct { unsigned long long st, en, t1; long sl, el; int kind, worker; long idx; } nkey;
static int nkey_cmp(const void *a_, const void *b_) {
  const nkey *a = a_, *b = b_;
#define C(f) if (a->f != b->f) return a->f < b->f ? -1 : 1
  C(st); C(en); C(t1); C(sl); C(el); C(kind); C(worker);
#undef C
  return 0;
}
static nkey mk_key(dr_pi_dag_node *u, long idx) { nkey k = { u->info.start.t, u->info.end.t, u->info.t_1, u->info.start.pos.line, u->info.end.pos.line, (int)u->info.kind, u->info.worker, idx }; return k; }
static void validate_strings(dr_pi_dag *G, const char *what, dr_pi_dag *orig) {
  char m[300];
  if (!G->S || G->S->n <= 0) { snprintf(m, sizeof m, "%s: empty string table", what); fail("C19-STRUCT", m); return; }
  for (long i = 0; i < G->n; i++) {
    dr_pi_dag_node *u = &G->T[i];
    if (u->info.start.pos.file_idx < 0 || u->info.start.pos.file_idx >= G->S->n || u->info.end.pos.file_idx < 0 || u->info.end.pos.file_idx >= G->S->n) {
      snprintf(m, sizeof m, "%s: node %ld refers to source-file index %ld/%ld but the string table has %ld entries", what, i, u->info.start.pos.file_idx, u->info.end.pos.file_idx, G->S->n); fail("C19-STRINGS", m); return; }
  }
  if (!orig) return;
  nkey *K = malloc(sizeof(nkey) * (size_t)orig->n);
  for (long i = 0; i < orig->n; i++) K[i] = mk_key(&orig->T[i], i);
  qsort(K, (size_t)orig->n, sizeof(nkey), nkey_cmp);
  for (long i = 0; i < G->n && !fail_cls; i++) {
    nkey q = mk_key(&G->T[i], i);
    nkey *hit = bsearch(&q, K, (size_t)orig->n, sizeof(nkey), nkey_cmp);
    if (!hit) continue;
    /* skip ambiguous keys */
    if ((hit > K && nkey_cmp(hit - 1, &q) == 0) || (hit < K + orig->n - 1 && nkey_cmp(hit + 1, &q) == 0)) continue;
    dr_pi_dag_node *o = &orig->T[hit->idx], *u = &G->T[i];
    const char *os = orig->S->C + orig->S->I[o->info.start.pos.file_idx], *oe = orig->S->C + orig->S->I[o->info.end.pos.file_idx];
    const char *us = G->S->C + G->S->I[u->info.start.pos.file_idx], *ue = G->S->C + G->S->I[u->info.end.pos.file_idx];
    if (strcmp(os, us) || strcmp(oe, ue)) { snprintf(m, sizeof m, "%s: node %ld starts/ends in '%s'/'%s' but the node it was copied from in '%s'/'%s'", what, i, us, ue, os, oe); fail("C19-STRINGS", m); }
  }
  free(K);
}
static int files_equal(const char *a, const char *b, long mask_off, long mask_len) {
  FILE *fa = fopen(a, "rb"), *fb = fopen(b, "rb");
  if (!fa || !fb) { if (fa) fclose(fa); if (fb) fclose(fb); return 0; }
  static char ba[65536], bb[65536];
  int eq = 1; long pos = 0;
  for (;;) {
    size_t na = fread(ba, 1, sizeof ba, fa), nb = fread(bb, 1, sizeof bb, fb);
    if (na != nb) { eq = 0; break; }
    if (na == 0) break;
    if (memcmp(ba, bb, na) != 0)
      for (size_t i = 0; i < na; i++) if (ba[i] != bb[i] && !(pos + (long)i >= mask_off && pos + (long)i < mask_off + mask_len)) { eq = 0; break; }
    if (!eq) break;
    pos += (long)na;
  }
  fclose(fa); fclose(fb); return eq;
}
static void totals_of(dr_dag_node_info *info, totals *t) {
  t->t1 = info->t_1; t->tinf = info->t_inf;
  for (int k = 0; k < 4; k++) t->nodes[k] = info->logical_node_counts[k];
  for (int k = 0; k < 5; k++) t->edges[k] = info->logical_edge_counts[k];
}
/* totals of a position independent DAG: materialised edges + logical counts of collapsed nodes */
static void totals_of_pi(dr_pi_dag *G, totals *t) {
  totals_of(&G->T[0].info, t);
  for (int k = 0; k < 5; k++) t->edges[k] = 0;
  for (long i = 0; i < G->n; i++) { dr_pi_dag_node *u = &G->T[i]; if (u->info.kind >= dr_dag_node_kind_section && u->subgraphs_begin_offset == u->subgraphs_end_offset) for (int k = 0; k < 5; k++) t->edges[k] += u->info.logical_edge_counts[k]; }
  for (long j = 0; j < G->m; j++) if ((int)G->E[j].kind >= 0 && G->E[j].kind < 5) t->edges[G->E[j].kind]++;
}
static int cmp_totals(const totals *a, const totals *b, int with_other_edges, char *why, size_t n) {
  static const char *const nk[] = { "create", "wait", "other", "end" }; static const char *const ek[] = { "end", "create", "create_cont", "wait_cont", "other_cont" };
  if (a->t1 != b->t1) { snprintf(why, n, "work %llu vs %llu", a->t1, b->t1); return 0; }
  if (a->tinf != b->tinf) { snprintf(why, n, "critical path %llu vs %llu", a->tinf, b->tinf); return 0; }
  for (int k = 0; k < 4; k++) if (a->nodes[k] != b->nodes[k]) { snprintf(why, n, "number of %s intervals %ld vs %ld", nk[k], a->nodes[k], b->nodes[k]); return 0; }
  for (int k = 0; k < 5; k++) { if (k == dr_dag_edge_kind_other_cont && !with_other_edges) continue; if (a->edges[k] != b->edges[k]) { snprintf(why, n, "number of %s edges %ld vs %ld", ek[k], a->edges[k], b->edges[k]); return 0; } }
  return 1;
}

static char tmpdir[256];
static long n_settings_run, n_collapsed_runs, n_nodes_mat, n_nodes_logical;
static int in_run;
static void cleanup_tmp(void) {
  char f[400]; static const char *const ext[] = { ".dag", ".stat", ".txt", "_again.dag", "_again.txt", ".gpl", ".dot" };
  if (!tmpdir[0]) return;
  for (int k = 0; k < 9; k++) for (unsigned e = 0; e < sizeof ext / sizeof ext[0]; e++) { snprintf(f, sizeof f, "%s/r%d%s", tmpdir, k, ext[e]); unlink(f); }
  rmdir(tmpdir);
}
static void on_exit_handler(void) { cleanup_tmp(); if (in_run) { in_run = 0; mvsim_violation("C18-DRCHECK", "the DAG Recorder terminated the process (dr_check / assertion failed) during a recorded execution"); } }

static void setting(int k, dr_options *o) {
  dr_options_default_(o);
  o->dag_file_yes = 1; o->stat_file_yes = 1; o->gpl_file_yes = 0; o->dot_file_yes = 0; o->text_file_yes = (k == 0);
  o->worker_specific_state_array = 1; o->chk_level = getenv("DRSIM_CHK") ? 1 : 0; o->verbose_level = 0; o->on = 1; o->record_cpu = 0;
  o->alloc_unit_mb = 1;
  o->hooks.enter_create_task = hook_interval; o->hooks.enter_wait_tasks = hook_interval; o->hooks.enter_other = hook_interval; o->hooks.end_task = hook_interval;
  uint64_t h = (uint64_t)P[D_OPTSEED] * 0x9e3779b97f4a7c15ULL + (uint64_t)k * 77;
  h = mvsim_splitmix(&h);
  o->uncollapse_min = 0; o->collapse_max = 0; o->node_count_target = 0; o->prune_threshold = 100000; o->collapse_max_count = 0;
  switch (k == 0 ? 0 : 1 + (int)(h % 5)) {
    case 0: break;                                                        /* never contract */
    case 1: o->collapse_max = 1ULL << 60; break;                          /* default: contract single-worker subgraphs */
    case 2: o->collapse_max = 1 + (h >> 8) % 3000000; break;              /* by span */
    case 3: o->uncollapse_min = 1 + (h >> 8) % 3000000; o->collapse_max = (h >> 40) % 2 ? 1ULL << 60 : 0; break;
    case 4: o->collapse_max_count = 2 + (long)((h >> 8) % 60); break;     /* by logical node count */
    default: o->node_count_target = 1 + (long)((h >> 8) % 40); o->prune_threshold = 1 + (long)((h >> 20) % 30); break;
  }
}

static void gen(mvsim_rng *r, long *p, int tier) {
  static const long nt[] = { 1, 2, 3, 5, 8, 20, 60, 150, 400 };
  p[D_NTASKS] = mvh_pick(r, nt, tier ? 9 : 8);
  p[D_NWORKERS] = mvh_range(r, 1, 8);
  p[D_SEED] = (long)(mvsim_rng_next(r) >> 24);
  p[D_POLICY] = mvh_chance(r, 600) ? 0 : 1;
  static const long zp[] = { 0, 50, 300, 1000 };
  p[D_ZERO_PM] = mvh_pick(r, zp, 4);
  if (p[D_ZERO_PM] == 1000 && mvh_chance(r, 800)) p[D_ZERO_PM] = 300;
  p[D_LENCLASS] = mvh_range(r, 0, 2);
  p[D_NFILES] = mvh_range(r, 1, 50);
  p[D_OPTSEED] = (long)(mvsim_rng_next(r) >> 30);
  p[D_NSETTINGS] = mvh_range(r, 2, tier ? 6 : 4);
  p[D_WIDE] = 0;
  if (mvh_chance(r, 40)) {   /* occasionally a wide DAG: 60..300 children of one section, ready at the same time */
    static const long wd[] = { 60, 99, 100, 101, 128, 150, 257, 300 };
    p[D_WIDE] = mvh_pick(r, wd, 8); p[D_POLICY] = 1; if (p[D_NTASKS] > 60) p[D_NTASKS] = 60;
  }
}
static void describe(const long *p, FILE *f) {
  fprintf(f, "drsim tasks<=%ld workers=%ld policy=%s zero-length-intervals=%ld/1000 length-class=%ld files=%ld contraction-settings=%ld",
          p[D_NTASKS], p[D_NWORKERS], p[D_POLICY] ? "help-first" : "work-first", p[D_ZERO_PM], p[D_LENCLASS], p[D_NFILES], p[D_NSETTINGS]);
}

static void run(const long *p, mvsim_runcfg *cfg, mvsim_runstats *st) {
  (void)cfg;
  P = p;
  static int inited;
  if (!inited) { inited = 1; atexit(on_exit_handler); snprintf(tmpdir, sizeof tmpdir, "%s/drsim-%d", getenv("TMPDIR") ? getenv("TMPDIR") : access("/dev/shm", W_OK) == 0 ? "/dev/shm" : "/tmp", (int)getpid()); mkdir(tmpdir, 0700); }
  myth_verif_dr_clock = vclock;
  NW = (int)p[D_NWORKERS]; if (NW < 1) NW = 1; if (NW > 8) NW = 8;
  gen_program();
  totals orc; memset(&orc, 0, sizeof orc);
  orc.tinf = oracle_task(0, &orc);
  totals first; memset(&first, 0, sizeof first);
  char why[200], msg[400];
  fail_cls = 0;
  uint64_t sig = 0xcbf29ce484222325ULL;
  int nset = (int)p[D_NSETTINGS]; if (nset < 1) nset = 1; if (nset > 8) nset = 8;
  in_run = 1;
  for (int k = 0; k < nset && !fail_cls; k++) {
    dr_options o; setting(k, &o);
    char prefix[300]; snprintf(prefix, sizeof prefix, "%s/r%d", tmpdir, k);
    o.dag_file_prefix = prefix;
    simulate(&o);
    if (fail_cls) break;
    /* every task must have ended */
    for (int i = 0; i < nvt; i++) if (!VT[i].done) { fail("INFRA", "virtual task did not finish"); break; }
    if (nvt != nptask) fail("INFRA", "not every program task was created");
    if (fail_cls) break;
    totals rec; totals_of(&GS.root->info, &rec);
    n_settings_run++;
    n_nodes_mat += GS.root->info.cur_node_count;
    n_nodes_logical += rec.nodes[0] + rec.nodes[1] + rec.nodes[2] + rec.nodes[3];
    if (GS.root->info.cur_node_count < 1 + 2 * (rec.nodes[0] + rec.nodes[1]) + rec.nodes[2] + rec.nodes[3]) n_collapsed_runs++;
    /* C18: work = sum of all interval lengths (independent accumulators), critical path = longest chain */
    if (hook_work != orc.t1) { snprintf(msg, sizeof msg, "setting %d: the interval hooks saw %llu cycles of work, the generated program has %llu", k, hook_work, orc.t1); fail("INFRA", msg); break; }
    if (rec.t1 > 0 && rec.tinf > rec.t1) { snprintf(msg, sizeof msg, "setting %d: critical path %llu exceeds work %llu", k, rec.tinf, rec.t1); fail("C18-TINF", msg); break; }
    if (!cmp_totals(&rec, &orc, 0, why, sizeof why)) { snprintf(msg, sizeof msg, "contraction setting %d (collapse_max=%llu uncollapse_min=%llu max_count=%ld target=%ld/%ld): recorder vs. uncontracted interval sequence: %s", k, o.collapse_max, o.uncollapse_min, o.collapse_max_count, o.node_count_target, o.prune_threshold, why); fail("C18-TOTALS", msg); break; }
    sig = (sig ^ rec.t1 ^ (rec.tinf << 7) ^ (uint64_t)GS.root->info.cur_node_count) * 0x100000001b3ULL;
    /* dump, stat file */
    dr_dump_();
    char fdag[330], fstat[330], ftxt[330];
    snprintf(fdag, sizeof fdag, "%s.dag", prefix); snprintf(fstat, sizeof fstat, "%s.stat", prefix); snprintf(ftxt, sizeof ftxt, "%s.txt", prefix);
    { FILE *sf = fopen(fstat, "r"); char line[300]; unsigned long long sw = ~0ULL, si = ~0ULL; long sc = -1, swt = -1, se = -1;
      if (!sf) { fail("C19-FILES", "no .stat file was written"); break; }
      while (fgets(line, sizeof line, sf)) { sscanf(line, "work (T1) = %llu", &sw); sscanf(line, "critical_path (T_inf) = %llu", &si); sscanf(line, "create_task = %ld", &sc); sscanf(line, "wait_tasks = %ld", &swt); sscanf(line, "end_task = %ld", &se); }
      fclose(sf);
      if (sw != orc.t1 || si != orc.tinf || sc != orc.nodes[0] || swt != orc.nodes[1] || se != orc.nodes[3]) { snprintf(msg, sizeof msg, "setting %d: .stat file reports work=%llu T_inf=%llu create=%ld wait=%ld end=%ld; the uncontracted sequence gives %llu %llu %ld %ld %ld", k, sw, si, sc, swt, se, orc.t1, orc.tinf, orc.nodes[0], orc.nodes[1], orc.nodes[3]); fail("C18-STAT", msg); break; } }
    /* C19: read back, validate, re-dump byte-identically */
    dr_pi_dag *G = dr_read_dag(fdag);
    if (!G) { fail("C19-FILES", "dr_read_dag failed on the file just dumped"); break; }
    validate_pi_dag(G, "dumped DAG");
    if (!fail_cls) validate_strings(G, "dumped DAG", 0);
    if (fail_cls) break;
    totals pit; totals_of_pi(G, &pit);
    if (k == 0) first = pit;
    /* edge totals by kind (materialised + logical) must not depend on contraction */
    if (!cmp_totals(&pit, &first, 1, why, sizeof why)) { snprintf(msg, sizeof msg, "contraction setting %d vs. uncontracted recording of the same execution: %s", k, why); fail("C18-INVARIANT", msg); break; }
    { char p2[330]; snprintf(p2, sizeof p2, "%s/r%d_again", tmpdir, k); const char *save = GS.opts.dag_file_prefix; GS.opts.dag_file_prefix = p2;
      dr_gen_pi_dag(G); if (GS.opts.text_file_yes) dr_gen_text(G);
      GS.opts.dag_file_prefix = save;
      char f2[340]; snprintf(f2, sizeof f2, "%s.dag", p2);
      long soff = DAG_RECORDER_HEADER_LEN + 4 * (long)sizeof(long) + G->n * (long)sizeof(dr_pi_dag_node) + G->m * (long)sizeof(dr_pi_dag_edge) + (long)offsetof(dr_pi_string_table, I);
      if (!files_equal(fdag, f2, soff, 2 * (long)sizeof(void *))) { fail("C19-ROUNDTRIP", "dump -> read -> dump does not give a byte-identical .dag file"); break; }
      snprintf(f2, sizeof f2, "%s.txt", p2);
      if (access(ftxt, R_OK) == 0 && !files_equal(ftxt, f2, 0, 0)) { fail("C19-ROUNDTRIP", "dump -> read -> text conversion differs from the text written at dump time"); break; } }
    /* shrinking copy (as dag2any --shrink) under a random target preserves the totals and stays well formed */
    { dr_pi_dag G2[1];
      /* conversion-time contraction is driven by collapse_max_count / collapse_max / uncollapse_min */
      long save_c = GS.opts.collapse_max_count; dr_clock_t save_max = GS.opts.collapse_max, save_min = GS.opts.uncollapse_min;
      uint64_t h = (uint64_t)P[D_OPTSEED] + (uint64_t)k; h = mvsim_splitmix(&h);
      GS.opts.collapse_max_count = 0; GS.opts.collapse_max = 0; GS.opts.uncollapse_min = 0;
      switch (h % 4) {
        case 0: GS.opts.collapse_max_count = 2 + (long)((h >> 8) % 80); break;
        case 1: GS.opts.collapse_max = 1ULL << 60; break;
        case 2: GS.opts.collapse_max = 1 + (h >> 8) % 4000000; break;
        default: GS.opts.uncollapse_min = 1 + (h >> 8) % 4000000; GS.opts.collapse_max = (h >> 40) & 1 ? 1ULL << 60 : 0; break;
      }
      dr_copy_pi_dag(G2, G);
      GS.opts.collapse_max_count = save_c; GS.opts.collapse_max = save_max; GS.opts.uncollapse_min = save_min;
      validate_pi_dag(G2, "shrunk copy");
      if (!fail_cls) validate_strings(G2, "shrunk copy", G);
      if (fail_cls) break;
      totals t2; totals_of_pi(G2, &t2);
      if (!cmp_totals(&t2, &pit, 1, why, sizeof why)) { snprintf(msg, sizeof msg, "shrinking a %ld-node DAG to %ld nodes changed the totals: %s", G->n, G2->n, why); fail("C19-SHRINK", msg); break; }
      mvh_counter[mvh_counter_id("shrunk_copies")]++;
      if (G2->n < G->n) mvh_counter[mvh_counter_id("shrunk_copies_smaller")]++; }
  }
  in_run = 0;
  st->steps = (uint64_t)nptask; st->preemptions = (uint64_t)n_migrations; st->switches = (uint64_t)n_steals; st->signature = sig; st->max_workers = NW;
  mvh_counter[mvh_counter_id("recorded_executions")] += (uint64_t)nset;
  mvh_counter[mvh_counter_id("steals")] += (uint64_t)n_steals;
  mvh_counter[mvh_counter_id("tasks")] += (uint64_t)nptask;
  if (n_migrations > 0 && nptask > 1) mvh_run_flags |= 1;
  if (fail_cls) {
    cleanup_tmp();
    mvsim_violation(fail_cls, "%s", fail_msg);
  }
}
static void stats(FILE *f) { fprintf(f, "\"x_recordings\":%ld,\"x_recordings_with_contraction\":%ld,\"x_materialised_nodes\":%ld,\"x_logical_intervals\":%ld", n_settings_run, n_collapsed_runs, n_nodes_mat, n_nodes_logical); }

const mvh_class wl_dr = { "dr", D_NP, pnames, gen, run, stats, describe };
const mvh_class *const mvh_classes[] = { &wl_dr };
const int mvh_n_classes = 1;
