#include "mvh.h"
extern const mvh_class wl_forkjoin, wl_mutex, wl_cond, wl_barrier, wl_jc, wl_uncond, wl_felock, wl_once, wl_tls, wl_dtor, wl_timed, wl_initfini, wl_bulk, wl_taskgroup, wl_parfor, wl_regs;
const mvh_class *const mvh_classes[] = { &wl_forkjoin, &wl_mutex, &wl_cond, &wl_barrier, &wl_jc, &wl_uncond, &wl_felock, &wl_once, &wl_tls, &wl_dtor, &wl_timed, &wl_initfini, &wl_bulk, &wl_taskgroup, &wl_parfor, &wl_regs };
const int mvh_n_classes = sizeof(mvh_classes) / sizeof(mvh_classes[0]);
