#include "mvh.h"
extern const mvh_class wl_forkjoin;
const mvh_class *const mvh_classes[] = { &wl_forkjoin };
const int mvh_n_classes = sizeof(mvh_classes) / sizeof(mvh_classes[0]);
