/* mvh_main.c -- batch driver of the whole-library harness binary "mvh" */
#define _GNU_SOURCE
#include <stdio.h>
#include <stdlib.h>
#include <string.h>
#include <time.h>
#include <unistd.h>
#include <sys/personality.h>
#include "mvh.h"
#include "myth/myth.h"

uint64_t mvh_counter[64];
const char *mvh_counter_name[64];
static int n_counters;
int mvh_counter_id(const char *name) {
  for (int i = 0; i < n_counters; i++) if (!strcmp(mvh_counter_name[i], name)) return i;
  if (n_counters == 64) return 63;
  mvh_counter_name[n_counters] = name;
  return n_counters++;
}
uint32_t mvh_run_flags;   /* bit0: a probe relevant to the class' property was hit in this run */

static const mvh_class *find_class(const char *n) {
  for (int i = 0; i < mvh_n_classes; i++) if (!strcmp(mvh_classes[i]->name, n)) return mvh_classes[i];
  return 0;
}

/* a harness binary may override its name (used in replay files to find the binary again) */
const char *mvh_harness_name __attribute__((weak)) = "mvh";
static void (*plan_extra)(FILE *);
void mvh_set_plan_extra(void (*fn)(FILE *)) { plan_extra = fn; }
int ptprog_refplan(const char *csv) __attribute__((weak));
static const mvh_class *cur_class;
static long cur_params[MVH_MAX_PARAMS];
static void plan_dumper(FILE *f) {
  fprintf(f, " \"param_names\": [");
  for (int i = 0; i < cur_class->nparams; i++) fprintf(f, "%s\"%s\"", i ? "," : "", cur_class->param_names[i]);
  fprintf(f, "],\n \"params\": [");
  for (int i = 0; i < cur_class->nparams; i++) fprintf(f, "%s%ld", i ? "," : "", cur_params[i]);
  fprintf(f, "],\n");
  if (plan_extra) plan_extra(f);
  if (cur_class->describe) {
    char *buf = 0; size_t sz = 0;
    FILE *m = open_memstream(&buf, &sz);
    cur_class->describe(cur_params, m);
    fclose(m);
    fprintf(f, " \"plan\": \"");
    for (size_t i = 0; i < sz; i++) {
      unsigned char c = (unsigned char)buf[i];
      if (c == '"' || c == '\\') fprintf(f, "\\%c", c);
      else if (c == '\n') fprintf(f, "\\n");
      else if (c < 32) fprintf(f, " ");
      else fputc(c, f);
    }
    fprintf(f, "\",\n");
    free(buf);
  }
}

static uint64_t hash_str(const char *s) {
  uint64_t h = 0xcbf29ce484222325ULL;
  for (; *s; s++) h = (h ^ (unsigned char)*s) * 0x100000001b3ULL;
  return h;
}

static double now_s(void) {
  struct timespec ts; clock_gettime(CLOCK_MONOTONIC, &ts);
  return ts.tv_sec + ts.tv_nsec * 1e-9;
}

struct override { const char *name; long val; };

/* --envprobe N: natural-timing run (simulator inactive, real worker pthreads) used by the
   configuration-string part of C15: initialise from the environment, check the worker count,
   run a small fork-join program, finalise. */
static void *probe_leaf(void *a) { return (void *)((long)a + 1); }
static int envprobe(long expect_nw) {
  myth_init();
  int nw = myth_get_num_workers();
  if (expect_nw > 0 && nw != expect_nw) { printf("ENVPROBE-BAD nworkers=%d expected=%ld\n", nw, expect_nw); fflush(stdout); _exit(11); }
  myth_thread_t th[8];
  for (long i = 0; i < 8; i++) th[i] = myth_create(probe_leaf, (void *)i);
  for (long i = 0; i < 8; i++) { void *r = 0; myth_join(th[i], &r); if (r != (void *)(i + 1)) { printf("ENVPROBE-BAD join\n"); fflush(stdout); _exit(11); } }
  int w = myth_get_worker_num();
  if (w < 0 || w >= nw) { printf("ENVPROBE-BAD worker index %d\n", w); fflush(stdout); _exit(11); }
  myth_fini();
  printf("ENVPROBE-OK nworkers=%d\n", nw);
  return 0;
}

void mvh_warmup(void) __attribute__((weak));
int main(int argc, char **argv) {
  const char *cname = 0, *replay = 0, *outdir = "", *sigfile = 0;
  uint64_t seed = 1; long start = 0, runs = 1; int tier = 0, verbose = 0, dump_plan = 0;
  double max_seconds = 0;
  /* identical address-space layout in every process: memory-corruption bugs then replay too */
  if (!getenv("MVH_NOASLR_DONE")) {
    setenv("MVH_NOASLR_DONE", "1", 1);
    if (personality(ADDR_NO_RANDOMIZE) != -1) execv("/proc/self/exe", argv);
  }
  struct override ov[48]; int nov = 0;
  for (int i = 1; i < argc; i++) {
    if (!strcmp(argv[i], "--class") && i + 1 < argc) cname = argv[++i];
    else if (!strcmp(argv[i], "--seed") && i + 1 < argc) seed = strtoull(argv[++i], 0, 10);
    else if (!strcmp(argv[i], "--start") && i + 1 < argc) start = atol(argv[++i]);
    else if (!strcmp(argv[i], "--runs") && i + 1 < argc) runs = atol(argv[++i]);
    else if (!strcmp(argv[i], "--tier") && i + 1 < argc) tier = !strcmp(argv[++i], "thorough");
    else if (!strcmp(argv[i], "--replay") && i + 1 < argc) replay = argv[++i];
    else if (!strcmp(argv[i], "--replay-out") && i + 1 < argc) outdir = argv[++i];
    else if (!strcmp(argv[i], "--sigfile") && i + 1 < argc) sigfile = argv[++i];
    else if (!strcmp(argv[i], "--max-seconds") && i + 1 < argc) max_seconds = atof(argv[++i]);
    else if (!strcmp(argv[i], "--envprobe") && i + 1 < argc) { mvsim_global_init(); return envprobe(atol(argv[++i])); }
    else if (!strcmp(argv[i], "--refplan") && i + 1 < argc) return ptprog_refplan ? ptprog_refplan(argv[++i]) : 2;
    else if (!strcmp(argv[i], "--verbose")) verbose = 1;
    else if (!strcmp(argv[i], "--dump-plan")) dump_plan = 1;
    else if (!strcmp(argv[i], "--set") && i + 1 < argc && nov < 48) {
      char *eq = strchr(argv[++i], '=');
      if (!eq) { fprintf(stderr, "bad --set\n"); return 2; }
      *eq = 0; ov[nov].name = argv[i]; ov[nov].val = atol(eq + 1); nov++;
    } else if (!strcmp(argv[i], "--list")) {
      for (int k = 0; k < mvh_n_classes; k++) {
        printf("%s:", mvh_classes[k]->name);
        for (int j = 0; j < mvh_classes[k]->nparams; j++) printf(" %s", mvh_classes[k]->param_names[j]);
        printf("\n");
      }
      return 0;
    } else { fprintf(stderr, "unknown argument %s\n", argv[i]); return 2; }
  }
  mvsim_global_init();
  setenv("MYTH_BIND_WORKERS", "0", 1);

  if (replay) {
    if (mvsim_replay_load(replay) != 0) { fprintf(stderr, "cannot load replay file %s\n", replay); return 2; }
    /* class name from the file */
    static char cbuf[64];
    FILE *f = fopen(replay, "r"); char line[4096];
    while (f && fgets(line, sizeof line, f)) {
      char *p = strstr(line, "\"class\":");
      if (p) { p = strchr(p + 8, '"'); if (p) { char *e = strchr(p + 1, '"'); if (e) { *e = 0; snprintf(cbuf, sizeof cbuf, "%s", p + 1); cname = cbuf; } } }
    }
    if (f) fclose(f);
  }
  if (!cname) { fprintf(stderr, "usage: mvh --class C --seed S [--start I --runs N] | --replay FILE | --list\n"); return 2; }
  const mvh_class *c = find_class(cname);
  if (!c) { fprintf(stderr, "unknown class %s\n", cname); return 2; }
  cur_class = c;
  mvsim_set_plan_dumper(plan_dumper);

#ifdef MVSIM_MEM_FLAVOUR
  if (mvh_warmup) { mvsim_set_context(mvh_harness_name, "warmup", 0, -1, outdir); mvh_run_flags = 0; mvh_warmup(); }
#endif
  FILE *sf = sigfile ? fopen(sigfile, "ab") : 0;
  double t0 = now_s();
  mvsim_runstats tot; memset(&tot, 0, sizeof tot);
  long done = 0, nontrivial = 0;
  long strat_hist[MVS_N_STRATEGIES] = {0}, worker_hist[MVSIM_MAX_WORKERS + 1] = {0};
  uint64_t chash = hash_str(cname);

  for (long i = start; i < start + runs; i++) {
    uint64_t x = seed * 0x9e3779b97f4a7c15ULL ^ chash;
    x += (uint64_t)i * 0xd1b54a32d192ed03ULL;
    uint64_t run_seed = mvsim_splitmix(&x);
    mvsim_runcfg cfg;
    if (replay) {
      if (mvsim_cfg_from_replay(&cfg) != 0) { fprintf(stderr, "replay file has no cfg\n"); return 2; }
      int n; const long *pv = mvsim_replay_list("params", &n);
      if (!pv || n != c->nparams) { fprintf(stderr, "replay file: parameter vector mismatch (%d vs %d)\n", n, c->nparams); return 2; }
      memcpy(cur_params, pv, sizeof(long) * n);
      int nb; const long *bs = mvsim_replay_list("run_index", &nb); (void)bs;
      run_seed = cfg.run_seed;
    } else {
      mvsim_default_cfg(&cfg, run_seed);
      mvsim_rng pr; mvsim_rng_seed(&pr, run_seed, 0x706c616e /* "plan" */);
      memset(cur_params, 0, sizeof cur_params);
      c->gen(&pr, cur_params, tier);
    }
    for (int k = 0; k < nov; k++) {
      int found = 0;
      for (int j = 0; j < c->nparams; j++) if (!strcmp(c->param_names[j], ov[k].name)) { cur_params[j] = ov[k].val; found = 1; }
      if (!strcmp(ov[k].name, "strategy")) { cfg.strategy = (int)ov[k].val; found = 1; }
      if (!strcmp(ov[k].name, "poison")) { cfg.poison = (int)ov[k].val; found = 1; }
      if (!strcmp(ov[k].name, "budget1")) { cfg.budget1 = (uint64_t)ov[k].val; found = 1; }
      if (!found) { fprintf(stderr, "--set: no parameter %s in class %s\n", ov[k].name, cname); return 2; }
    }
    mvsim_set_context(mvh_harness_name, cname, seed, i, outdir);
    if (dump_plan) {
      printf("PLAN run=%ld ", i);
      if (c->describe) c->describe(cur_params, stdout);
      else { printf("%s", cname); for (int j = 0; j < c->nparams; j++) printf(" %s=%ld", c->param_names[j], cur_params[j]); }
      printf("\n");
    }
    mvsim_runstats st; memset(&st, 0, sizeof st);
    mvh_run_flags = 0;
    c->run(cur_params, &cfg, &st);
    done++;
    tot.steps += st.steps; tot.switches += st.switches; tot.preemptions += st.preemptions; tot.stalls += st.stalls;
    tot.spins += st.spins; tot.rand_draws += st.rand_draws; tot.clock_reads += st.clock_reads; tot.tsc_reads += st.tsc_reads;
    tot.clock_zero += st.clock_zero; tot.clock_jumps += st.clock_jumps; tot.virt_ns += st.virt_ns;
    tot.poisoned_stacks += st.poisoned_stacks; tot.poisoned_results += st.poisoned_results;
    tot.switch_pairs += st.switch_pairs; tot.drained += st.drained;
    for (int k = 0; k < 160; k++) tot.probe[k] += st.probe[k];
    strat_hist[cfg.strategy % MVS_N_STRATEGIES]++;
    worker_hist[st.max_workers <= MVSIM_MAX_WORKERS ? st.max_workers : MVSIM_MAX_WORKERS]++;
    int nt = st.preemptions > 0 && (mvh_run_flags & 1);
    nontrivial += nt;
    if (sf) {
      struct { uint64_t sig; uint32_t pre; uint32_t flags; } rec = { st.signature, (uint32_t)(st.preemptions > 0xffffffffu ? 0xffffffffu : st.preemptions), mvh_run_flags };
      fwrite(&rec, sizeof rec, 1, sf);
      if ((i & 15) == 15) fflush(sf);   /* a later run of this batch may end the process with a violation */
    }
    if (verbose || replay)
      printf("RUN i=%ld seed=%llu sig=%016llx steps=%llu preempt=%llu strategy=%d workers=%d flags=%u diverged=%d\n", i,
             (unsigned long long)run_seed, (unsigned long long)st.signature, (unsigned long long)st.steps,
             (unsigned long long)st.preemptions, cfg.strategy, st.max_workers, mvh_run_flags, mvsim_replay_diverged());
    if (replay) break;
    if (max_seconds > 0 && now_s() - t0 > max_seconds) break;
  }
  if (sf) fclose(sf);
  double wall = now_s() - t0;
  printf("STATS {\"class\":\"%s\",\"seed\":%llu,\"start\":%ld,\"done\":%ld,\"wall_s\":%.3f,\"nontrivial\":%ld,"
         "\"steps\":%llu,\"switches\":%llu,\"preemptions\":%llu,\"stalls\":%llu,\"spins\":%llu,\"rand_draws\":%llu,"
         "\"clock_reads\":%llu,\"clock_zero\":%llu,\"clock_jumps\":%llu,\"virt_ns\":%llu,\"poisoned_stacks\":%llu,"
         "\"poisoned_results\":%llu,\"switch_pairs_sum\":%llu,\"drained\":%d,\"tsc_reads\":%llu,",
         cname, (unsigned long long)seed, start, done, wall, nontrivial, (unsigned long long)tot.steps,
         (unsigned long long)tot.switches, (unsigned long long)tot.preemptions, (unsigned long long)tot.stalls,
         (unsigned long long)tot.spins, (unsigned long long)tot.rand_draws, (unsigned long long)tot.clock_reads,
         (unsigned long long)tot.clock_zero, (unsigned long long)tot.clock_jumps, (unsigned long long)tot.virt_ns,
         (unsigned long long)tot.poisoned_stacks, (unsigned long long)tot.poisoned_results,
         (unsigned long long)tot.switch_pairs, tot.drained, (unsigned long long)tot.tsc_reads);
  printf("\"strategies\":[");
  for (int k = 0; k < MVS_N_STRATEGIES; k++) printf("%s%ld", k ? "," : "", strat_hist[k]);
  printf("],\"workers_hist\":{");
  int first = 1;
  for (int k = 0; k <= MVSIM_MAX_WORKERS; k++) if (worker_hist[k]) { printf("%s\"%d\":%ld", first ? "" : ",", k, worker_hist[k]); first = 0; }
  printf("},\"sites\":{");
  first = 1;
  for (int k = 0; k < 160; k++) if (tot.probe[k]) { printf("%s\"%d\":%llu", first ? "" : ",", k, (unsigned long long)tot.probe[k]); first = 0; }
  printf("},\"counters\":{");
  for (int k = 0; k < n_counters; k++) printf("%s\"%s\":%llu", k ? "," : "", mvh_counter_name[k], (unsigned long long)mvh_counter[k]);
  printf("}");
  if (c->stats) { printf(","); c->stats(stdout); }
  printf("}\n");
  return 0;
}
