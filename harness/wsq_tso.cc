/* wsq_tso.cc -- x86-TSO / SC unit simulator for the work-stealing deque (C02, part a).
 *
 * The UNMODIFIED text of /repo/src/myth_wsqueue_func.h is compiled here as C++ against shadow
 * definitions: the queue fields top/base/ptr[i]/lock.locked/wc.* are SimVar<T> objects, so every
 * load and store of the algorithm becomes a simulator event.  Each participant (one owner, up to
 * three thieves/passers) is a cooperative task with a FIFO store buffer: stores enter the buffer,
 * loads forward from the own buffer, the full fence (xchg-based myth_rbarrier/myth_rwbarrier) and
 * the lock CAS drain it, myth_wbarrier is a compiler barrier only, and "flush the oldest store
 * of participant p" is one more schedulable event.  Depth 0 gives sequential consistency.
 *
 * Modelled (trusted): the spin lock and the fences (what myth_spinlock_func.h and
 * myth_mem_barrier_func.h implement with MYTH_BARRIER_CILK).  Real: the deque algorithm text.
 */
#include <stdio.h>
#include <stdlib.h>
#include <string.h>
#include <stdint.h>
#include <stddef.h>
#include <assert.h>
#include <sys/mman.h>
#include "mvh.h"

/* ------------------------------------------------------------------ */
/* simulator core                                                      */
/* ------------------------------------------------------------------ */
#define MAXP 4
#define MAXBUF 8
struct SBEntry { uint64_t *addr; uint64_t val; };
struct Part {
  void *sp;                      /* saved stack pointer (coroutine) */
  char *stack;
  int id, done, started;
  SBEntry sb[MAXBUF]; int sbn;
  uint64_t *wait_lock;           /* blocked until *wait_lock == 0 in memory */
  int role;                      /* 0 owner, 1 thief */
};
static Part PT[MAXP];
static int NP_, cur = -1;
static void *sched_sp;
static int sb_depth;
static uint64_t tso_steps, tso_flushes, tso_delayed, tso_forwarded, tso_sig;
static mvsim_rng trng;
static int flush_weight;          /* a flush action has weight 1, a participant step has weight flush_weight */
static int sticky_pm;
/* schedule trace / replay */
static long *tr; static int trn, trcap;
static const long *rp; static int rpn, rpi; static int replaying;

extern "C" void tso_switch(void **save_sp, void *new_sp);
__asm__(
  ".text\n.globl tso_switch\n.type tso_switch,@function\n"
  "tso_switch:\n"
  "  pushq %rbp\n  pushq %rbx\n  pushq %r12\n  pushq %r13\n  pushq %r14\n  pushq %r15\n"
  "  movq %rsp,(%rdi)\n  movq %rsi,%rsp\n"
  "  popq %r15\n  popq %r14\n  popq %r13\n  popq %r12\n  popq %rbx\n  popq %rbp\n  ret\n"
  ".size tso_switch,.-tso_switch\n");

static void tr_push(long v) { if (trn == trcap) { trcap = trcap ? trcap * 2 : 4096; tr = (long *)realloc(tr, sizeof(long) * trcap); } tr[trn++] = v; }

/* give control back to the scheduler; returns when this participant is chosen again */
static void tso_yield() { Part *p = &PT[cur]; tso_switch(&p->sp, sched_sp); }

static uint64_t mem_read(uint64_t *a) { return *a; }
static void flush_one(Part *p) {
  SBEntry e = p->sb[0];
  memmove(&p->sb[0], &p->sb[1], sizeof(SBEntry) * (p->sbn - 1));
  p->sbn--;
  *e.addr = e.val;
  tso_flushes++;
}
static void drain(Part *p) { while (p->sbn) flush_one(p); }

static uint64_t sim_load(uint64_t *a) {
  tso_yield();
  Part *p = &PT[cur];
  for (int i = p->sbn - 1; i >= 0; i--) if (p->sb[i].addr == a) { tso_forwarded++; return p->sb[i].val; }
  return mem_read(a);
}
static void sim_store(uint64_t *a, uint64_t v) {
  tso_yield();
  Part *p = &PT[cur];
  if (sb_depth == 0) { *a = v; return; }
  if (p->sbn == sb_depth) flush_one(p);
  p->sb[p->sbn].addr = a; p->sb[p->sbn].val = v; p->sbn++;
  tso_delayed++;
}
static void sim_fence() { tso_yield(); drain(&PT[cur]); }
/* locked instruction: drains, then atomically compares and swaps in memory */
static int sim_cas(uint64_t *a, uint64_t o, uint64_t n) {
  tso_yield();
  Part *p = &PT[cur];
  drain(p);
  if (*a == o) { *a = n; return 1; }
  return 0;
}

template <typename T> struct SimVar {
  uint64_t cell;
  operator T() const { return (T)sim_load(const_cast<uint64_t *>(&cell)); }
  SimVar &operator=(T v) { sim_store(&cell, (uint64_t)v); return *this; }
  SimVar &operator=(const SimVar &o) { T v = (T)o; sim_store(&cell, (uint64_t)v); return *this; }
  T operator++(int) { T v = (T)sim_load(&cell); sim_store(&cell, (uint64_t)(v + 1)); return v; }
  T operator--(int) { T v = (T)sim_load(&cell); sim_store(&cell, (uint64_t)(v - 1)); return v; }
  SimVar &operator+=(T d) { T v = (T)sim_load(&cell); sim_store(&cell, (uint64_t)(v + d)); return *this; }
  T raw() const { return (T)cell; }
  void init(T v) { cell = (uint64_t)v; }
};

/* ------------------------------------------------------------------ */
/* shadow definitions for the library headers                          */
/* ------------------------------------------------------------------ */
#define MYTH_WSQUEUE_H_
#define MYTH_SPINLOCK_FUNC_H_
#define MYTH_SPINLOCK_H
#define MYTH_MISC_FUNC_H_
#define MYTH_MISC_H_
#define MYTH_MEM_BARRIER_FUNC_H_
#define MYTH_H_                    /* keep the public header out: we only need the names below */

struct myth_thread { long tag; };
typedef struct myth_thread *myth_thread_t;
typedef struct { SimVar<int> locked; } myth_spinlock_t;

#define USE_LOCK 0
#define USE_LOCK_CLEAR 0
#define USE_LOCK_PUSH 0
#define USE_LOCK_POP 0
#define USE_LOCK_TAKE 0
#define USE_LOCK_TRYPASS 0
#define USE_LOCK_ANY 0
#define USE_SIGNAL_CS 0
#define USE_THREAD_CS 0
#define WS_CACHE_SIZE 2048
typedef struct {
  char data[WS_CACHE_SIZE];
  size_t size;
  SimVar<void *> ptr;
  SimVar<int> seq;
} myth_wscache, *myth_wscache_t;

typedef struct myth_thread_queue {
  SimVar<int> top;
  SimVar<int> base;
  SimVar<myth_thread_t> *ptr;
  int size;
  myth_spinlock_t lock;
  myth_wscache wc;
} myth_thread_queue, *myth_thread_queue_t;

static int overflow_abort;
static void tso_abort() { overflow_abort = 1; PT[cur].done = 1; for (;;) tso_yield(); }
#define abort() tso_abort()
#define myth_assert(x) do { if (!(x)) tso_assert_fail(#x, __LINE__); } while (0)
#define myth_unreachable() do { } while (0)
static int assert_failed_line; static const char *assert_failed_expr;
static void tso_assert_fail(const char *e, int line) { if (!assert_failed_line) { assert_failed_line = line; assert_failed_expr = e; } }
static inline void *myth_malloc(size_t n) { return malloc(n); }
static inline void myth_free_with_size(void *p, size_t n) { (void)n; free(p); }

/* modelled spin lock (myth_spinlock_func.h): CAS + full fence; unlock = full fence + plain store */
static inline int myth_spin_init_body(myth_spinlock_t *l) { l->locked.init(0); return 0; }
static inline int myth_spin_destroy(myth_spinlock_t *l) { (void)l; return 0; }
static inline int myth_spin_trylock_body(myth_spinlock_t *l) { return sim_cas(&l->locked.cell, 0, 1); }
static inline int myth_spin_lock_body(myth_spinlock_t *l) {
  int failed = 0;
  while (!sim_cas(&l->locked.cell, 0, 1)) { failed++; PT[cur].wait_lock = &l->locked.cell; }
  PT[cur].wait_lock = 0;
  return failed;
}
static inline int myth_spin_unlock_body(myth_spinlock_t *l) { sim_fence(); l->locked = 0; return 0; }
/* modelled fences (myth_mem_barrier_func.h, MYTH_BARRIER_CILK): rbarrier = xchg = full fence */
static uint64_t fence_count[3];
static inline void myth_rbarrier() { fence_count[0]++; sim_fence(); }
static inline void myth_wbarrier() { fence_count[1]++; __asm__ volatile("" ::: "memory"); }
static inline void myth_rwbarrier() { fence_count[2]++; sim_fence(); }

/* element moves of the re-centring code go through the simulator as well */
static void sim_memmove(SimVar<myth_thread_t> *d, SimVar<myth_thread_t> *s, size_t n) {
  if (d < s) for (size_t i = 0; i < n; i++) { myth_thread_t v = s[i]; d[i] = v; }
  else for (size_t i = n; i-- > 0; ) { myth_thread_t v = s[i]; d[i] = v; }
}
#define memmove(d, s, n) sim_memmove((SimVar<myth_thread_t> *)(d), (SimVar<myth_thread_t> *)(s), (n) / sizeof(myth_thread_t))

static inline void myth_queue_clear(myth_thread_queue_t q);
#include "myth_wsqueue_func.h"     /* the real algorithm text */
#undef memmove
#undef abort

/* ------------------------------------------------------------------ */
/* plan, interpreter, oracle                                           */
/* ------------------------------------------------------------------ */
enum { W_NTHIEVES, W_CAP, W_PREFILL, W_NOPS, W_DEPTH, W_SEED, W_START, W_FLUSHW, W_STICKY, W_PASSERS, W_NP };
static const char *const pnames[] = { "nthieves", "cap", "prefill", "nops", "sb_depth", "seed", "start_pos", "flush_weight", "sticky_pm", "passers" };
static const long *P;
static myth_thread_queue Q;
#define MAXTAG 96
static struct myth_thread TAGS[MAXTAG];
static int ntags;
static int state_of[MAXTAG];        /* 0 unused, 1 in queue (inserted), 2 removed */
static int inserted_cnt, removed_cnt, live_in_q;
static const char *fail_cls; static char fail_msg[300];
static long op_hist[8];
static uint64_t probe_pop_slow, probe_take_rollback, probe_recentre;

static void fail(const char *cls, const char *fmt, long a, long b) { if (!fail_cls) { fail_cls = cls; snprintf(fail_msg, sizeof fail_msg, fmt, a, b); } }

static void note_removed(myth_thread_t t, const char *how) {
  if (!t) return;
  long tag = t - TAGS;
  if (tag < 0 || tag >= ntags || state_of[tag] == 0) { fail("C02-FOREIGN", "%ld: returned a pointer that was never inserted (tag %ld)", (long)(intptr_t)how[0], tag); return; }
  if (state_of[tag] == 2) { fail("C02-DUPLICATE", "thread with tag %ld was handed out twice (second time by op kind %ld)", tag, (long)how[0]); return; }
  state_of[tag] = 2; removed_cnt++; live_in_q--;
}
static myth_thread_t new_item() { if (ntags >= MAXTAG) return 0; TAGS[ntags].tag = ntags; state_of[ntags] = 1; inserted_cnt++; live_in_q++; return &TAGS[ntags++]; }

static void owner_body() {
  uint64_t x = (uint64_t)P[W_SEED] * 31 + 7;
  for (long i = 0; i < P[W_NOPS]; i++) {
    uint64_t h = mvsim_splitmix(&x);
    int op = (int)(h % 5);
    if (op <= 1 && live_in_q < P[W_CAP] - 2) { myth_thread_t t = new_item(); if (t) { op_hist[0]++; myth_queue_push(&Q, t); } }
    else if (op == 2 && live_in_q < P[W_CAP] - 2) { myth_thread_t t = new_item(); if (t) { op_hist[2]++; myth_queue_put(&Q, t); } }
    else { op_hist[1]++; note_removed(myth_queue_pop(&Q), "pop"); }
  }
}
static void thief_body(int id) {
  uint64_t x = (uint64_t)P[W_SEED] * 131 + (uint64_t)id * 977;
  int passer = id <= P[W_PASSERS];
  for (long i = 0; i < P[W_NOPS]; i++) {
    uint64_t h = mvsim_splitmix(&x);
    int op = (int)(h % 6);
    if (op <= 3 || !passer) {
      if (op == 3) { op_hist[5]++; myth_thread_t t = myth_queue_peek(&Q); if (t) { long tag = t - TAGS; if (tag < 0 || tag >= ntags) fail("C02-FOREIGN", "peek returned a pointer that was never inserted (%ld,%ld)", tag, 0); } }
      else { op_hist[3]++; note_removed(myth_queue_take(&Q), "take"); }
    } else if (live_in_q < P[W_CAP] - 2) {
      myth_thread_t t = new_item();
      if (t) {
        op_hist[4]++;
        if (!myth_queue_trypass(&Q, t)) { /* refused: the item never entered the queue */ state_of[t - TAGS] = 0; inserted_cnt--; live_in_q--; }
      }
    }
  }
}
static void part_entry() {
  Part *p = &PT[cur];
  if (p->role == 0) owner_body(); else thief_body(p->id);
  drain(p);
  p->done = 1;
  for (;;) tso_yield();
}
static void spawn(int i, int role) {
  Part *p = &PT[i];
  if (!p->stack) p->stack = (char *)mmap(0, 256 * 1024, PROT_READ | PROT_WRITE, MAP_PRIVATE | MAP_ANONYMOUS, -1, 0);
  uintptr_t top = ((uintptr_t)p->stack + 256 * 1024 - 64) & ~(uintptr_t)15;
  uint64_t *sp = (uint64_t *)top;
  *--sp = 0;
  *--sp = (uint64_t)(uintptr_t)part_entry;
  for (int k = 0; k < 6; k++) *--sp = 0;
  p->sp = sp; p->id = i; p->done = 0; p->sbn = 0; p->wait_lock = 0; p->role = role; p->started = 0;
}

static void gen(mvsim_rng *r, long *p, int tier) {
  p[W_NTHIEVES] = mvh_range(r, 1, 3);
  static const long caps[] = { 4, 5, 6, 8, 8, 16 };
  p[W_CAP] = mvh_pick(r, caps, 6);
  p[W_PREFILL] = mvh_range(r, 0, 3);
  if (p[W_PREFILL] > p[W_CAP] - 2) p[W_PREFILL] = p[W_CAP] - 2;
  p[W_NOPS] = mvh_range(r, 3, tier ? 10 : 8);
  static const long depths[] = { 0, 0, 1, 2, 4, 4 };
  p[W_DEPTH] = mvh_pick(r, depths, 6);
  p[W_SEED] = (long)(mvsim_rng_next(r) >> 24);
  /* start position of the window: middle, at the lower boundary, at the upper boundary */
  p[W_START] = mvh_range(r, 0, 2);
  static const long fw[] = { 1, 2, 4, 8, 16 };
  p[W_FLUSHW] = mvh_pick(r, fw, 5);
  static const long st[] = { 0, 300, 700, 900 };
  p[W_STICKY] = mvh_pick(r, st, 4);
  p[W_PASSERS] = mvh_range(r, 0, 2);
}

static void describe(const long *p, FILE *f) {
  fprintf(f, "wsq_tso owner+%ld thieves (%ld may trypass) capacity=%ld prefill=%ld ops/participant=%ld store-buffer depth=%ld (%s) window start=%s",
          p[W_NTHIEVES], p[W_PASSERS], p[W_CAP], p[W_PREFILL], p[W_NOPS], p[W_DEPTH], p[W_DEPTH] ? "x86-TSO" : "SC",
          p[W_START] == 0 ? "middle" : p[W_START] == 1 ? "base=0" : "top=size");
}
static void plan_extra(FILE *f) {
  fprintf(f, " \"tso_sched\": [");
  for (int i = 0; i < trn; i++) fprintf(f, "%s%ld", i ? "," : "", tr[i]);
  fprintf(f, "],\n");
}

extern "C" uint32_t mvh_run_flags;
extern "C" void mvh_set_plan_extra(void (*fn)(FILE *));

static void run(const long *p, mvsim_runcfg *cfg, mvsim_runstats *st) {
  P = p;
  NP_ = 1 + (int)p[W_NTHIEVES]; if (NP_ > MAXP) NP_ = MAXP;
  sb_depth = (int)p[W_DEPTH]; if (sb_depth > MAXBUF) sb_depth = MAXBUF;
  flush_weight = (int)(p[W_FLUSHW] < 1 ? 1 : p[W_FLUSHW]); sticky_pm = (int)p[W_STICKY];
  int cap = (int)p[W_CAP]; if (cap < 4) cap = 4; if (cap > 64) cap = 64;
  static SimVar<myth_thread_t> slots[64];
  memset(slots, 0, sizeof slots);
  Q.ptr = slots; Q.size = cap; Q.lock.locked.init(0); Q.wc.seq.init(0); Q.wc.ptr.init(0); Q.wc.size = 0;
  int start = p[W_START] == 1 ? 0 : p[W_START] == 2 ? cap - (int)p[W_PREFILL] : cap / 2 - (int)p[W_PREFILL] / 2;
  if (start < 0) start = 0;
  if (start + p[W_PREFILL] > cap) start = cap - (int)p[W_PREFILL];
  ntags = 0; inserted_cnt = removed_cnt = live_in_q = 0; memset(state_of, 0, sizeof state_of);
  fail_cls = 0; overflow_abort = 0; assert_failed_line = 0;
  for (int i = 0; i < p[W_PREFILL]; i++) { myth_thread_t t = new_item(); slots[start + i].init(t); }
  Q.base.init(start); Q.top.init(start + (int)p[W_PREFILL]);
  mvsim_rng_seed(&trng, cfg->run_seed, 77);
  tso_steps = tso_flushes = tso_delayed = tso_forwarded = 0; tso_sig = 0xcbf29ce484222325ULL; trn = 0;
  replaying = mvsim_replay_active();
  if (replaying) { rp = mvsim_replay_list("tso_sched", &rpn); rpi = 0; }
  mvh_set_plan_extra(plan_extra);
  spawn(0, 0);
  for (int i = 1; i < NP_; i++) spawn(i, 1);
  uint64_t preempt = 0; int last = -1;
  /* scheduler loop: actions 0..NP_-1 = step participant i, NP_..2NP_-1 = flush oldest store of participant i-NP_ */
  for (;;) {
    int act[2 * MAXP], w[2 * MAXP], n = 0, alive = 0;
    for (int i = 0; i < NP_; i++) {
      Part *q = &PT[i];
      if (!q->done) { alive++; if (!(q->wait_lock && *q->wait_lock != 0)) { act[n] = i; w[n] = flush_weight; n++; } }
      if (q->sbn) { act[n] = NP_ + i; w[n] = 1; n++; }
    }
    if (!alive) break;
    if (n == 0) { fail("C02-DEADLOCK", "no participant can run and no store is pending (%ld alive, %ld)", alive, 0); break; }
    int pick = -1;
    if (replaying) {
      long want = rpi < rpn ? rp[rpi++] : -1;
      for (int i = 0; i < n; i++) if (act[i] == want) pick = act[i];
      if (pick < 0) pick = act[0];
    } else {
      if (last >= 0 && (int)mvsim_rng_below(&trng, 1000) < sticky_pm) for (int i = 0; i < n; i++) if (act[i] == last) pick = last;
      if (pick < 0) {
        int tot = 0; for (int i = 0; i < n; i++) tot += w[i];
        int r = (int)mvsim_rng_below(&trng, (uint64_t)tot);
        for (int i = 0; i < n; i++) { r -= w[i]; if (r < 0) { pick = act[i]; break; } }
      }
    }
    tr_push(pick);
    tso_steps++;
    tso_sig = (tso_sig ^ (uint64_t)(pick + 1)) * 0x100000001b3ULL;
    if (pick >= NP_) flush_one(&PT[pick - NP_]);
    else {
      if (last >= 0 && last < NP_ && last != pick && !PT[last].done) preempt++;
      last = pick; cur = pick;
      tso_switch(&sched_sp, PT[pick].sp);
      cur = -1;
    }
    if (tso_steps > 200000) { fail("C02-LIVELOCK", "no termination after %ld steps (%ld)", (long)tso_steps, 0); break; }
    if (fail_cls) break;
  }
  if (!fail_cls && overflow_abort) fail("C02-OVERFLOW", "the queue aborted with 'Runqueue overflow' although at most %ld of %ld slots were ever occupied", (long)live_in_q, (long)p[W_CAP]);
  if (!fail_cls && assert_failed_line) fail("C02-ASSERT", "myth_assert failed at myth_wsqueue_func.h line %ld (%ld)", assert_failed_line, 0);
  if (!fail_cls) {
    /* final drain by the owner, sequentially (all buffers are empty now) */
    int b = Q.base.raw(), t = Q.top.raw();
    for (int i = b; i < t; i++) {
      myth_thread_t th = slots[i].raw();
      long tag = th - TAGS;
      if (!th || tag < 0 || tag >= ntags || state_of[tag] == 0) { fail("C02-FOREIGN", "slot %ld holds a pointer that was never inserted (tag %ld)", i, tag); break; }
      if (state_of[tag] == 2) { fail("C02-DUPLICATE", "thread with tag %ld is still in the queue although it was already handed out (slot %ld)", tag, i); break; }
      state_of[tag] = 2; removed_cnt++;
    }
    if (!fail_cls) for (int k = 0; k < ntags; k++) if (state_of[k] == 1) { fail("C02-LOST", "thread with tag %ld was inserted but is neither in the queue nor was it ever handed out (%ld)", k, 0); break; }
    if (!fail_cls && Q.lock.locked.raw() != 0) fail("C02-LOCK", "queue lock still held at the end (%ld,%ld)", 0, 0);
  }
  st->steps = tso_steps; st->preemptions = preempt; st->switches = preempt; st->signature = tso_sig; st->max_workers = NP_;
  st->probe[0] = tso_flushes;
  mvh_counter[mvh_counter_id("tso_delayed_stores")] += tso_delayed;
  mvh_counter[mvh_counter_id("tso_flush_events")] += tso_flushes;
  mvh_counter[mvh_counter_id("tso_store_forwardings")] += tso_forwarded;
  mvh_counter[mvh_counter_id(sb_depth ? "runs_tso" : "runs_sc")]++;
  mvh_counter[mvh_counter_id("fences_executed")] += fence_count[0] + fence_count[2];
  fence_count[0] = fence_count[1] = fence_count[2] = 0;
  static const char *const on[] = { "op_push", "op_pop", "op_put", "op_take", "op_trypass", "op_peek" };
  for (int k = 0; k < 6; k++) { mvh_counter[mvh_counter_id(on[k])] += (uint64_t)op_hist[k]; op_hist[k] = 0; }
  if (preempt > 0) mvh_run_flags |= 1;
  if (fail_cls) mvsim_violation(fail_cls, "%s [%s]", fail_msg, sb_depth ? "x86-TSO" : "SC");
}

extern "C" { const char *mvh_harness_name = "wsq_tso"; }
extern "C" const mvh_class wl_wsq = { "wsq", W_NP, pnames, gen, run, 0, describe };
extern "C" const mvh_class *const mvh_classes[] = { &wl_wsq };
extern "C" const int mvh_n_classes = 1;
