/* mvh.h -- common harness framework: workload classes driven by integer parameter vectors.
 *
 * A workload class = a seeded generator of a parameter vector ("plan parameters") + an
 * interpreter that expands the parameters deterministically into a program over the PUBLIC
 * MassiveThreads API and runs it inside the simulator, checking its oracle.  Replay files
 * carry the parameter vector, so shrinking a plan = shrinking integers (always a valid plan).
 */
#ifndef MVH_H_
#define MVH_H_
#include <stdint.h>
#include <stdio.h>
#include "mvsim.h"

#ifdef __cplusplus
extern "C" {
#endif

#define MVH_MAX_PARAMS 40

typedef struct {
  const char *name;
  int nparams;
  const char *const *param_names;
  /* draw a parameter vector from r; tier 0 = quick, 1 = thorough */
  void (*gen)(mvsim_rng *r, long *p, int tier);
  /* run one simulated execution; violations terminate the process via mvsim_violation */
  void (*run)(const long *p, mvsim_runcfg *cfg, mvsim_runstats *st);
  /* optional: extra per-class statistics (JSON fragment without braces) */
  void (*stats)(FILE *f);
  /* optional: human readable expansion of the plan for the replay file / evidence samples */
  void (*describe)(const long *p, FILE *f);
} mvh_class;

extern const mvh_class *const mvh_classes[];
extern const int mvh_n_classes;

/* helpers */
static inline long mvh_pick(mvsim_rng *r, const long *choices, int n) { return choices[mvsim_rng_below(r, n)]; }
static inline long mvh_range(mvsim_rng *r, long lo, long hi) { return lo + (long)mvsim_rng_below(r, (uint64_t)(hi - lo + 1)); }
static inline int  mvh_chance(mvsim_rng *r, int permille) { return (int)mvsim_rng_below(r, 1000) < permille; }

/* check macro for oracles */
#define MVH_CHECK(cond, cls, ...) do { if (!(cond)) mvsim_violation(cls, __VA_ARGS__); } while (0)

/* counters that classes may bump; printed in STATS */
extern uint64_t mvh_counter[64];
extern const char *mvh_counter_name[64];
int mvh_counter_id(const char *name);

#ifdef __cplusplus
}
#endif
#endif
