/* wl_tls.c -- thread-specific data: classes "tls" (C10) and "dtor" (C11) */
#define _GNU_SOURCE
#include <stdlib.h>
#include <string.h>
#include <errno.h>
#include "myth/myth.h"
#include "mvh.h"
#include "wl_common.h"
#define MYTH_VERIF 1
#include "myth_verif.h"

enum { Q_NWORKERS, Q_QSIZE, Q_PFIRST, Q_YIELD_PM, Q_SEED, Q_COMMON };
#define COMMON_NAMES "nworkers", "queue_size", "parent_first", "yield_pm", "seed"
#define NKEYS 1024
#define MAXT 16
static const long *P;
static myth_thread_t TH[MAXT + 4];
#define YIELD(k) wl_maybe_yield(wl_mix(P[Q_SEED], (uint64_t)(k)), (int)P[Q_YIELD_PM])

static void gen_common(mvsim_rng *r, long *p, long nthreads) {
  wl_gen_common(r, &p[Q_NWORKERS], &p[Q_QSIZE], &p[Q_PFIRST], nthreads + 8);
  static const long ypm[] = { 0, 200, 500, 1000 };
  p[Q_YIELD_PM] = mvh_pick(r, ypm, 4);
  p[Q_SEED] = (long)(mvsim_rng_next(r) >> 20);
}

/* ================================================================== */
/* tls (C10)                                                           */
/* ================================================================== */
enum { T_MODE = Q_COMMON, T_SPAN, T_NUSED, T_NTHREADS, T_NOPS, T_NP };
static const char *const tls_names[] = { COMMON_NAMES, "mode", "span", "nused", "nthreads", "nops" };

static int live[NKEYS];            /* model of the key allocator: is index k live */
static int owner[NKEYS];           /* concurrent mode: which thread holds key k (+1) */
static myth_key_t used[64]; static int nused;
static uint64_t cover_keys[NKEYS / 64];   /* key indices that held a value in this process (evidence) */
static long cover_count;
static void cover(int k) { if (!(cover_keys[k >> 6] >> (k & 63) & 1)) { cover_keys[k >> 6] |= 1ULL << (k & 63); cover_count++; } }

static void tls_gen(mvsim_rng *r, long *p, int tier) {
  p[T_MODE] = mvh_range(r, 0, 2);
  static const long spans[] = { 4, 16, 17, 64, 65, 256, 257, 1024, 1024 };
  p[T_SPAN] = mvh_pick(r, spans, 9);
  p[T_NUSED] = mvh_range(r, 1, 24);
  p[T_NTHREADS] = mvh_range(r, 1, tier ? 8 : 5);
  p[T_NOPS] = mvh_range(r, 4, tier ? 120 : 40);
  gen_common(r, p, p[T_NTHREADS]);
}

/* mode 0: one sequential history over the whole index range */
static void tls_sequential(void) {
  void *mine[NKEYS]; memset(mine, 0, sizeof mine);
  int nlive = 0;
  uint64_t x = (uint64_t)P[Q_SEED];
  long nops = P[T_NOPS] * 8;
  int fill = (wl_mix(P[Q_SEED], 5) % 3 == 0);      /* sometimes run into exhaustion */
  for (long i = 0; i < nops; i++) {
    uint64_t h = mvsim_splitmix(&x);
    int op = (int)(h % 8);
    if (fill && i < NKEYS + 8) op = 0;
    if (op <= 1) {  /* create */
      myth_key_t k = -12345;
      int rc = myth_key_create(&k, 0);
      if (nlive == NKEYS) { MVH_CHECK(rc != 0, "C10-EXHAUST", "key_create succeeded although all %d keys are live", NKEYS); continue; }
      MVH_CHECK(rc == 0, "C10-CREATE", "key_create failed with %d although only %d keys are live", rc, nlive);
      MVH_CHECK(k >= 0 && k < NKEYS, "C10-RANGE", "key_create returned index %d", (int)k);
      MVH_CHECK(!live[k], "C10-DUPLICATE", "key_create returned %d which is still live", (int)k);
      live[k] = 1; nlive++;
      /* a fresh key must read NULL... only if no stale value: the library does not clear values on delete,
         so only check keys never used before in this thread */
    } else if (op == 2 && nlive > 0) {  /* delete a live key */
      int k = (int)((h >> 8) % NKEYS), tries = 0;
      while (!live[k] && tries++ < NKEYS) k = (k + 1) % NKEYS;
      if (!live[k]) continue;
      int rc = myth_key_delete(k);
      MVH_CHECK(rc == 0, "C10-DELETE", "key_delete(%d) of a live key returned %d", k, rc);
      live[k] = 0; nlive--; mine[k] = 0;
      myth_setspecific(k, 0);   /* clear our own slot so that a later owner of the index starts from NULL */
    } else if (op == 3) {  /* invalid operations must be rejected */
      static const int bad[] = { -1, NKEYS, NKEYS + 1, 1 << 20, -NKEYS, 0x7fffffff };
      int k = bad[(h >> 8) % 6];
      MVH_CHECK(myth_setspecific(k, &mine[0]) == EINVAL, "C10-INVALID", "setspecific(%d) was not rejected", k);
      MVH_CHECK(myth_getspecific(k) == 0, "C10-INVALID", "getspecific(%d) returned a value", k);
      MVH_CHECK(myth_key_delete(k) == EINVAL, "C10-INVALID", "key_delete(%d) was not rejected", k);
      int nl = (int)((h >> 20) % NKEYS);
      if (!live[nl]) MVH_CHECK(myth_key_delete(nl) == EINVAL, "C10-INVALID", "key_delete of the non-live key %d was not rejected", nl);
    } else if (nlive > 0) {  /* set / get on a live key */
      int k = (int)((h >> 8) % NKEYS), tries = 0;
      while (!live[k] && tries++ < NKEYS) k = (k + 1) % NKEYS;
      if (!live[k]) continue;
      if (op & 1) {
        void *v = (void *)(uintptr_t)(0x1000 + (h >> 16));
        MVH_CHECK(myth_setspecific(k, v) == 0, "C10-SET", "setspecific(%d) failed", k);
        mine[k] = v; cover(k);
      }
      MVH_CHECK(myth_getspecific(k) == mine[k], "C10-GET", "getspecific(%d) = %p, last stored %p", k, myth_getspecific(k), mine[k]);
      /* a store under one key does not affect another live key */
      int k2 = (int)((h >> 30) % NKEYS);
      if (live[k2]) MVH_CHECK(myth_getspecific(k2) == mine[k2], "C10-CROSSTALK", "value under key %d changed to %p (expected %p) after a store under key %d", k2, myth_getspecific(k2), mine[k2], k);
    }
    if ((h >> 50) % 16 == 0) YIELD(i);
  }
  for (int k = 0; k < NKEYS; k++) if (live[k]) { myth_setspecific(k, 0); MVH_CHECK(myth_key_delete(k) == 0, "C10-DELETE", "final delete of %d failed", k); live[k] = 0; }
}

/* mode 1: threads with private dictionaries over a set of keys spread over the index range.
   Some of the keys carry a destructor that yields (destructors are user code: they may yield or
   block, and the exiting thread may migrate inside them while other threads go on allocating). */
static long tls_dtor_runs;
static void tls_yield_dtor(void *v) {
  uint64_t h = wl_mix((uint64_t)(uintptr_t)v, 7);
  tls_dtor_runs++;
  for (int i = 0; i < 1 + (int)(h % 3); i++) { if ((h >> (8 + i)) & 1) myth_yield(); else myth_yield_ex(myth_yield_option_steal_first); mvsim_user_point(); }
}
static int used_has_dtor[64];
static void *tls_thread(void *arg) {
  long t = (long)arg;
  void *mine[64]; memset(mine, 0, sizeof mine);
  uint64_t x = wl_mix(P[Q_SEED], 100 + t);
  /* a thread that never stored reads NULL */
  for (int j = 0; j < nused; j++) MVH_CHECK(myth_getspecific(used[j]) == 0, "C10-FRESH", "new thread reads %p under key %d before storing anything", myth_getspecific(used[j]), (int)used[j]);
  for (long i = 0; i < P[T_NOPS]; i++) {
    uint64_t h = mvsim_splitmix(&x);
    int j = (int)(h % (uint64_t)nused);
    if ((h >> 8) % 3) {
      void *v = (void *)(uintptr_t)(((uint64_t)(t + 1) << 32) | (uint64_t)((i + 1) << 8) | (uint64_t)j);
      MVH_CHECK(myth_setspecific(used[j], v) == 0, "C10-SET", "setspecific failed");
      mine[j] = v; cover((int)used[j]);
    }
    YIELD(t * 1000 + i);
    int j2 = (int)((h >> 20) % (uint64_t)nused);
    void *g = myth_getspecific(used[j2]);
    MVH_CHECK(g == mine[j2], "C10-GET", "thread %ld reads %p under key %d, last stored %p (worker %d)", t, g, (int)used[j2], mine[j2], myth_get_worker_num());
  }
  for (int j = 0; j < nused; j++) if (!used_has_dtor[j]) myth_setspecific(used[j], 0);   /* values under keys with a destructor stay: it runs at exit */
  return (void *)(t + 1);
}

/* mode 2: concurrent key creation and deletion */
static void *tls_keyracer(void *arg) {
  long t = (long)arg;
  myth_key_t mykeys[16]; int nk = 0;
  uint64_t x = wl_mix(P[Q_SEED], 300 + t);
  for (long i = 0; i < P[T_NOPS]; i++) {
    uint64_t h = mvsim_splitmix(&x);
    if (nk < 8 && ((h & 3) || nk == 0)) {
      myth_key_t k = -1;
      int rc = myth_key_create(&k, 0);
      MVH_CHECK(rc == 0 && k >= 0 && k < NKEYS, "C10-CREATE", "concurrent key_create returned rc=%d key=%d", rc, (int)k);
      MVH_CHECK(owner[k] == 0, "C10-DUPLICATE", "key %d handed to thread %ld while thread %d still holds it", (int)k, t, owner[k] - 1);
      owner[k] = (int)t + 1; mykeys[nk++] = k;
    } else if (nk > 0) {
      int j = (int)((h >> 8) % (uint64_t)nk);
      myth_key_t k = mykeys[j]; mykeys[j] = mykeys[--nk];
      owner[k] = 0;
      int rc = myth_key_delete(k);
      MVH_CHECK(rc == 0, "C10-DELETE", "concurrent key_delete(%d) returned %d", (int)k, rc);
    }
    if ((h >> 30) & 1) mvsim_user_point();
  }
  while (nk > 0) { myth_key_t k = mykeys[--nk]; owner[k] = 0; MVH_CHECK(myth_key_delete(k) == 0, "C10-DELETE", "final delete failed"); }
  return (void *)(t + 1);
}

static void tls_run(const long *p, mvsim_runcfg *cfg, mvsim_runstats *st) {
  P = p;
  memset(live, 0, sizeof live); memset(owner, 0, sizeof owner);
  int n = (int)p[T_NTHREADS]; if (n > MAXT) n = MAXT;
  wl_begin(cfg, p[Q_NWORKERS], 32, p[Q_QSIZE], (int)p[Q_PFIRST]);
  if (p[T_MODE] == 0) tls_sequential();
  else if (p[T_MODE] == 1) {
    int span = (int)p[T_SPAN]; if (span > NKEYS) span = NKEYS;
    myth_key_t all[NKEYS];
    int with_dtor = (int)(wl_mix(P[Q_SEED], 13) % 2);
    for (int i = 0; i < span; i++) {
      int rc = myth_key_create(&all[i], with_dtor && (wl_mix(P[Q_SEED], 2000 + i) % 3 == 0) ? tls_yield_dtor : 0);
      MVH_CHECK(rc == 0, "C10-CREATE", "key_create %d of %d failed (%d)", i, span, rc);
      MVH_CHECK(!live[all[i]], "C10-DUPLICATE", "key %d returned twice", (int)all[i]);
      live[all[i]] = 1;
    }
    /* keep nused keys spread over the range (always the last one), delete the others */
    nused = (int)p[T_NUSED]; if (nused > span) nused = span; if (nused > 64) nused = 64;
    int keep[NKEYS]; memset(keep, 0, sizeof keep);
    keep[span - 1] = 1;
    uint64_t x = wl_mix(P[Q_SEED], 9);
    for (int c = 1; c < nused; ) { int i = (int)(mvsim_splitmix(&x) % (uint64_t)span); if (!keep[i]) { keep[i] = 1; c++; } }
    nused = 0;
    for (int i = 0; i < span; i++) {
      if (keep[i]) { used_has_dtor[nused] = with_dtor && (wl_mix(P[Q_SEED], 2000 + i) % 3 == 0); used[nused++] = all[i]; }
      else { MVH_CHECK(myth_key_delete(all[i]) == 0, "C10-DELETE", "delete failed"); live[all[i]] = 0; }
    }
    /* several generations of threads: later ones run on recycled records and recycled tree nodes */
    int gens = 1 + (int)(wl_mix(P[Q_SEED], 17) % 3);
    for (int g = 0; g < gens; g++) {
      for (long i = 0; i < n; i++) { TH[i] = myth_create(tls_thread, (void *)(i + 16 * g)); YIELD(i + 3 + 40 * g); }
      for (int i = 0; i < n; i++) { void *r; myth_join(TH[i], &r); MVH_CHECK(r == (void *)(long)(i + 16 * g + 1), "C01-JOIN-VALUE", "join value"); }
    }
    for (int j = 0; j < nused; j++) { MVH_CHECK(myth_key_delete(used[j]) == 0, "C10-DELETE", "delete failed"); }
    if (with_dtor) {
      /* the library's key table is static and keeps the destructor of a deleted key in its cell (also across
         myth_fini/myth_init), and it calls such a destructor with a NULL value when later threads exit: tolerated (see the
         C11 note), but it made the events of a run depend on the runs before it in the same process.  Re-create the same
         cells without destructor and delete them again, so that every run starts from a table without destructors. */
      for (int i = 0; i < span; i++) MVH_CHECK(myth_key_create(&all[i], 0) == 0, "C10-CREATE", "key_create %d of %d failed after all keys were deleted", i, span);
      for (int i = 0; i < span; i++) MVH_CHECK(myth_key_delete(all[i]) == 0, "C10-DELETE", "delete failed");
    }
    if (mvsim_probe_count(MYTH_VP_STEAL_HIT)) mvh_run_flags |= 1;
  } else {
    if (n < 2) n = 2;
    if (n > 4) n = 4;
    for (long i = 0; i < n; i++) { TH[i] = myth_create(tls_keyracer, (void *)i); YIELD(i + 3); }
    for (int i = 0; i < n; i++) { void *r; myth_join(TH[i], &r); }
    if (mvsim_probe_count(MYTH_VS_KEY_CAS) > 2) mvh_run_flags |= 1;
  }
  if (p[T_MODE] == 0) mvh_run_flags |= 1;
  wl_end(st, 1);
}
static void tls_stats(FILE *f) {
  fprintf(f, "\"xb_key_indices_that_held_a_value\":\"");
  for (int i = 0; i < NKEYS / 64; i++) fprintf(f, "%016llx", (unsigned long long)cover_keys[i]);
  fprintf(f, "\"");
}
const mvh_class wl_tls = { "tls", T_NP, tls_names, tls_gen, tls_run, tls_stats, 0 };

/* ================================================================== */
/* dtor (C11)                                                          */
/* ================================================================== */
enum { D_SPAN = Q_COMMON, D_NUSED, D_NTHREADS, D_DTOR_PM, D_SET_PM, D_NULL_PM, D_EXITMODE, D_CHURN, D_NP };
static const char *const dtor_names[] = { COMMON_NAMES, "span", "nused", "nthreads", "dtor_pm", "set_pm", "null_pm", "exitmode", "churners" };

#define NDF 4
static int key_df[NKEYS];          /* destructor function index (+1) registered for key k, 0 = none */
static myth_key_t dkeys[64]; static int ndkeys;
/* values are pointers into this table so that a destructor can tell (thread, key slot) */
static struct { int thread, slot; } valtab[MAXT][64];
static int dcalls[MAXT][64];       /* destructor calls with the value of (thread, slot) */
static int expect_call[MAXT][64];
static long null_calls, foreign_calls;
static volatile int cancel_ready[MAXT];

static void dtor_common(int f, void *v) {
  if (!v) { null_calls++; return; }
  char *lo = (char *)valtab, *hi = lo + sizeof valtab;
  MVH_CHECK((char *)v >= lo && (char *)v < hi, "C11-FOREIGN", "destructor %d called with %p which is no value stored by any thread", f, v);
  int t = ((int *)v)[0], s = ((int *)v)[1];
  myth_key_t k = dkeys[s];
  MVH_CHECK(key_df[k] == f + 1, "C11-WRONG-DTOR", "destructor %d called with the value stored under key %d, whose destructor is %d", f, (int)k, key_df[k] - 1);
  dcalls[t][s]++;
  MVH_CHECK(dcalls[t][s] == 1, "C11-TWICE", "destructor of key %d called %d times for thread %d", (int)k, dcalls[t][s], t);
  /* destructors are user code: some of them yield, so the exiting thread may migrate inside them */
  uint64_t h = wl_mix(P[Q_SEED], 7000 + (uint64_t)t * 64 + (uint64_t)s);
  if (h % 4 == 0) { for (int i = 0; i < 1 + (int)((h >> 8) % 3); i++) { if ((h >> (12 + i)) & 1) myth_yield(); else myth_yield_ex(myth_yield_option_steal_first); mvsim_user_point(); } }
}
static void df0(void *v) { dtor_common(0, v); }
static void df1(void *v) { dtor_common(1, v); }
static void df2(void *v) { dtor_common(2, v); }
static void df3(void *v) { dtor_common(3, v); }
static void (*const dfs[NDF])(void *) = { df0, df1, df2, df3 };

static void dtor_gen(mvsim_rng *r, long *p, int tier) {
  static const long spans[] = { 1, 5, 16, 17, 34, 64, 65, 200, 256, 257, 600, 1024 };
  p[D_SPAN] = mvh_pick(r, spans, 12);
  p[D_NUSED] = mvh_range(r, 1, 20);
  p[D_NTHREADS] = mvh_range(r, 1, tier ? 8 : 4);
  static const long pm[] = { 300, 500, 1000, 1000 };
  p[D_DTOR_PM] = mvh_pick(r, pm, 4);
  p[D_SET_PM] = mvh_pick(r, pm, 4);
  p[D_NULL_PM] = mvh_chance(r, 300) ? 300 : 0;
  p[D_EXITMODE] = mvh_range(r, 0, 3);   /* 0 return, 1 myth_exit, 2 cancel, 3 mixed */
  gen_common(r, p, p[D_NTHREADS]);
  /* threads that create and delete other keys (with a destructor) while the keys under test are being created */
  p[D_CHURN] = mvh_chance(r, 400) ? mvh_range(r, 1, 3) : 0;
}
static __attribute__((noinline)) void nested_exit2(int d, void *v) {
  volatile char pad[32]; pad[0] = (char)d;
  if (d > 0) nested_exit2(d - 1, v); else myth_exit(v);
  pad[1] = 0;
}
static void churn_dtor(void *v) { MVH_CHECK(v == 0, "C11-FOREIGN", "destructor of a key that never held a value was called with %p", v); }
static volatile int churn_stop;
static void *churner(void *arg) {
  long t = (long)arg;
  for (long i = 0; i < 400 && !churn_stop; i++) {
    myth_key_t k = -1;
    int rc = myth_key_create(&k, churn_dtor);
    if (rc == 0) {          /* may legitimately fail when all 1024 indices are taken */
      MVH_CHECK(k >= 0 && k < NKEYS, "C10-RANGE", "key_create returned index %d", (int)k);
      wl_maybe_yield(wl_mix(P[Q_SEED], 31000 + t * 512 + i), 300);
      MVH_CHECK(myth_key_delete(k) == 0, "C10-DELETE", "delete of a churner key failed");
    }
    wl_maybe_yield(wl_mix(P[Q_SEED], 33000 + t * 512 + i), 500);
  }
  return (void *)(t + 1);
}
static void *dtor_thread(void *arg) {
  long t = (long)arg;
  for (int s = 0; s < ndkeys; s++) {
    uint64_t h = wl_mix(P[Q_SEED], t * 100 + s);
    if ((int)(h % 1000) < P[D_SET_PM]) {
      int null = (int)((h >> 12) % 1000) < P[D_NULL_PM];
      valtab[t][s].thread = (int)t; valtab[t][s].slot = s;
      void *v = null ? 0 : (void *)&valtab[t][s];
      /* occasionally store a first value and overwrite it: only the last one counts */
      if ((h >> 30) & 1) myth_setspecific(dkeys[s], (void *)&valtab[t][(s + 1) % ndkeys]);
      MVH_CHECK(myth_setspecific(dkeys[s], v) == 0, "C10-SET", "setspecific failed");
      expect_call[t][s] = (!null && key_df[dkeys[s]] != 0);
      if (!null) cover((int)dkeys[s]);
    }
    if ((h >> 40) & 1) YIELD(t * 50 + s);
  }
  int mode = (int)P[D_EXITMODE];
  if (mode == 3) mode = (int)(wl_mix(P[Q_SEED], t + 77) % 3);
  if (mode == 1) nested_exit2(2, (void *)(t + 1));
  if (mode == 2) {
    cancel_ready[t] = 1;
    for (;;) { myth_testcancel(); myth_yield(); mvsim_user_point(); }
  }
  return (void *)(t + 1);
}
static void dtor_run(const long *p, mvsim_runcfg *cfg, mvsim_runstats *st) {
  P = p;
  memset(key_df, 0, sizeof key_df); memset(dcalls, 0, sizeof dcalls); memset(expect_call, 0, sizeof expect_call);
  memset((void *)cancel_ready, 0, sizeof cancel_ready);
  null_calls = foreign_calls = 0;
  int n = (int)p[D_NTHREADS]; if (n > MAXT) n = MAXT;
  int span = (int)p[D_SPAN]; if (span > NKEYS) span = NKEYS;
  int nchurn = (int)p[D_CHURN]; if (nchurn < 0) nchurn = 0; if (nchurn > 3) nchurn = 3;
  if (span > NKEYS - 4) nchurn = 0;      /* leave room: the keys under test must all be creatable */
  wl_begin(cfg, p[Q_NWORKERS], 32, p[Q_QSIZE], (int)p[Q_PFIRST]);
  myth_key_t all[NKEYS];
  myth_thread_t churn_th[4]; churn_stop = 0;
  for (long c = 0; c < nchurn; c++) { churn_th[c] = myth_create(churner, (void *)c); YIELD(40 + c); }
  for (int i = 0; i < span; i++) {
    if (nchurn) YIELD(7700 + i);
    uint64_t h = wl_mix(P[Q_SEED], 500 + i);
    int f = (int)(h % 1000) < P[D_DTOR_PM] ? 1 + (int)((h >> 12) % NDF) : 0;
    int rc = myth_key_create(&all[i], f ? dfs[f - 1] : 0);
    MVH_CHECK(rc == 0 && all[i] >= 0 && all[i] < NKEYS, "C10-CREATE", "key_create failed");
    key_df[all[i]] = f;
  }
  /* used keys: always the last created one (highest index) plus a random subset; the others are deleted
     so that earlier branches of the per-thread tree stay empty */
  int want = (int)p[D_NUSED]; if (want > span) want = span; if (want > 64) want = 64;
  int keep[NKEYS]; memset(keep, 0, sizeof keep);
  keep[span - 1] = 1;
  uint64_t x = wl_mix(P[Q_SEED], 11);
  for (int c = 1; c < want; ) { int i = (int)(mvsim_splitmix(&x) % (uint64_t)span); if (!keep[i]) { keep[i] = 1; c++; } }
  ndkeys = 0;
  for (int i = 0; i < span; i++) {
    if (keep[i]) dkeys[ndkeys++] = all[i];
    else if ((wl_mix(P[Q_SEED], 900 + i) & 1)) { MVH_CHECK(myth_key_delete(all[i]) == 0, "C10-DELETE", "delete failed"); key_df[all[i]] = 0; all[i] = -1; }
  }
  for (long i = 0; i < n; i++) { TH[i] = myth_create(dtor_thread, (void *)i); YIELD(i + 3); }
  int mode = (int)p[D_EXITMODE];
  for (int i = 0; i < n; i++) {
    int m = mode == 3 ? (int)(wl_mix(P[Q_SEED], i + 77) % 3) : mode;
    if (m == 2) {
      while (!cancel_ready[i]) { myth_yield(); mvsim_user_point(); }
      myth_cancel(TH[i]);
      mvh_counter[mvh_counter_id("cancellations")]++;
    }
    void *r = 0;
    int rc = myth_join(TH[i], &r);
    MVH_CHECK(rc == 0, "C01-JOIN-RC", "join failed");
    if (m != 2) MVH_CHECK(r == (void *)(long)(i + 1), "C01-JOIN-VALUE", "join value %p", r);
    /* the thread has terminated: its destructors must have run by now */
    for (int s = 0; s < ndkeys; s++)
      MVH_CHECK(dcalls[i][s] == expect_call[i][s], "C11-COUNT", "thread %d (exit mode %d), key index %d: destructor called %d time(s), expected %d", i, m, (int)dkeys[s], dcalls[i][s], expect_call[i][s]);
  }
  churn_stop = 1;
  for (int c = 0; c < nchurn; c++) { void *r; myth_join(churn_th[c], &r); }
  for (int i = 0; i < span; i++) if (all[i] >= 0) { myth_setspecific(all[i], 0); myth_key_delete(all[i]); }
  mvh_counter[mvh_counter_id("dtor_null_calls")] += (uint64_t)null_calls;
  mvh_run_flags |= 1;
  wl_end(st, 1);
}
const mvh_class wl_dtor = { "dtor", D_NP, dtor_names, dtor_gen, dtor_run, tls_stats, 0 };
