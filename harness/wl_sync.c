/* wl_sync.c -- workload classes for the synchronisation primitives:
 *   mutex (C04), cond (C05), barrier (C06), jc (C07), uncond (C08), felock (C09), once (C14)
 * All programs are determinate and deadlock-free by construction, so HANG or a wrong count is a
 * violation of the library, never of the program.
 */
#define _GNU_SOURCE
#include <stdlib.h>
#include <string.h>
#include <errno.h>
#include "myth/myth.h"
#include "mvh.h"
#include "wl_common.h"
#define MYTH_VERIF 1
#include "myth_verif.h"

/* common leading parameters */
enum { Q_NWORKERS, Q_QSIZE, Q_PFIRST, Q_YIELD_PM, Q_SEED, Q_COMMON };
#define COMMON_NAMES "nworkers", "queue_size", "parent_first", "yield_pm", "seed"

static const long *P;
#define MAXT 1100
static myth_thread_t TH[MAXT];

static void gen_common(mvsim_rng *r, long *p, long nthreads) {
  wl_gen_common(r, &p[Q_NWORKERS], &p[Q_QSIZE], &p[Q_PFIRST], nthreads + 8);
  static const long ypm[] = { 0, 100, 300, 600, 1000 };
  p[Q_YIELD_PM] = mvh_pick(r, ypm, 5);
  p[Q_SEED] = (long)(mvsim_rng_next(r) >> 20);
}
static void spawn_all(int n, void *(*fn)(void *)) {
  for (long i = 0; i < n; i++) {
    if (P[Q_PFIRST] && (wl_mix(P[Q_SEED], 7000 + i) & 1)) {
      myth_thread_attr_t a; myth_thread_attr_init(&a);
      myth_create_ex(&TH[i], &a, fn, (void *)i);
    } else TH[i] = myth_create(fn, (void *)i);
    wl_maybe_yield(wl_mix(P[Q_SEED], 7100 + i), (int)P[Q_YIELD_PM]);
  }
}
static void join_all(int n) {
  for (int i = 0; i < n; i++) {
    void *r = 0;
    int rc = myth_join(TH[i], &r);
    MVH_CHECK(rc == 0 && r == (void *)(long)(i + 1), "C01-JOIN-VALUE", "join of helper thread %d gave rc=%d value=%p", i, rc, r);
  }
}
#define YIELD(k) wl_maybe_yield(wl_mix(P[Q_SEED], (uint64_t)(k)), (int)P[Q_YIELD_PM])
/* a quarter of the runs use their synchronisation objects twice: scenario, destroy, init again, scenario again
   (objects that were used, destroyed and re-initialised must behave like fresh ones) */
#define NCYCLES() (1 + (int)(wl_mix(P[Q_SEED], 4711) % 4 == 0))

/* ================================================================== */
/* mutex (C04)                                                         */
/* ================================================================== */
enum { M_NTHREADS = Q_COMMON, M_NACQ, M_NMUTEX, M_TRY_PM, M_TIMED_PM, M_CS_POINTS, M_HELPER_PM, M_SPINNERS, M_NP };
static const char *const mutex_names[] = { COMMON_NAMES, "nthreads", "nacq", "nmutex", "try_pm", "timed_pm", "cs_points", "helper_pm", "spinners" };
static myth_mutex_t MX[4];
static volatile int occ[4], interest[4];
static volatile long enter_events[4], acq_count[4];
static long acq_by_thread[MAXT];

static void mutex_gen(mvsim_rng *r, long *p, int tier) {
  p[M_NTHREADS] = mvh_range(r, 1, tier ? 16 : 10);
  p[M_NACQ] = mvh_range(r, 1, tier ? 10 : 6);
  p[M_NMUTEX] = mvh_range(r, 1, 3);
  static const long pm[] = { 0, 0, 150, 400, 1000 };
  p[M_TRY_PM] = mvh_pick(r, pm, 5);
  p[M_TIMED_PM] = mvh_pick(r, pm, 4);
  p[M_CS_POINTS] = mvh_range(r, 0, 3);
  p[M_HELPER_PM] = mvh_chance(r, 300) ? 300 : 0;
  gen_common(r, p, p[M_NTHREADS] * 2);
  /* threads that spin on trylock WITHOUT yielding (legal: they occupy their worker, nothing else).  At most
     nworkers-1 of them, so that one worker is always free to go idle and steal a descheduled holder. */
  p[M_SPINNERS] = (p[Q_NWORKERS] >= 2 && mvh_chance(r, 350)) ? mvh_range(r, 1, p[Q_NWORKERS] - 1 > 3 ? 3 : p[Q_NWORKERS] - 1) : 0;
  /* ... and no timedlock pollers next to them: myth_mutex_timedlock yields local-first, so two pollers on the one
     free worker hand it to each other for ever and never steal the holder -- a deadlock of the PROGRAM under
     non-preemptive scheduling, not of the library (first version of this shape raised exactly that false HANG) */
  if (p[M_SPINNERS]) p[M_TIMED_PM] = 0;
  /* occasionally a crowd of lockers on one mutex (waiter count in the state word, long sleep queue) */
  if (mvh_chance(r, tier ? 40 : 20)) {
    static const long crowd[] = { 63, 64, 65, 127, 128, 129, 255, 256, 257, 300, 512, 1000 };
    p[M_NTHREADS] = mvh_pick(r, crowd, 12); p[M_NACQ] = mvh_range(r, 1, 2); p[M_NMUTEX] = 1; p[M_TRY_PM] = 0; p[M_TIMED_PM] = 0;
    p[M_CS_POINTS] = mvh_range(r, 0, 1); p[Q_QSIZE] = 2 * p[M_NTHREADS] + 64; p[Q_YIELD_PM] = 100;
  }
}
static void *helper_fn(void *a) { mvsim_user_point(); return a; }

static void *mutex_thread(void *arg) {
  long t = (long)arg;
  myth_thread_t self = myth_self();
  for (long a = 0; a < P[M_NACQ]; a++) {
    uint64_t h = wl_mix(P[Q_SEED], t * 1000 + a);
    int m = (int)(h % (uint64_t)P[M_NMUTEX]);
    int mode = 0;
    if ((int)((h >> 10) % 1000) < P[M_TRY_PM]) mode = 1;
    else if ((int)((h >> 24) % 1000) < P[M_TIMED_PM]) mode = 2;
    int spinner = t < P[M_SPINNERS] && P[M_SPINNERS] <= P[Q_NWORKERS] - 1 && P[M_TIMED_PM] == 0;
    if (spinner) mode = 1;
    YIELD(h >> 3);
    if (mode == 0) {
      interest[m]++; enter_events[m]++;
      int rc = myth_mutex_lock(&MX[m]);
      MVH_CHECK(rc == 0, "C04-LOCK-RC", "myth_mutex_lock returned %d", rc);
    } else if (mode == 1) {
      for (;;) {
        int o0 = interest[m];
        interest[m]++; enter_events[m]++;
        long e0 = enter_events[m];
        uint64_t b0 = wl_blocks_of(self);
        int rc = myth_mutex_trylock(&MX[m]);
        MVH_CHECK(wl_blocks_of(self) == b0, "C04-TRYLOCK-BLOCKED", "myth_mutex_trylock blocked the calling thread");
        if (rc == 0) break;
        MVH_CHECK(rc == EBUSY, "C04-TRYLOCK-RC", "myth_mutex_trylock returned %d", rc);
        MVH_CHECK(o0 > 0 || enter_events[m] != e0, "C04-TRYLOCK-SPURIOUS", "trylock reported EBUSY although no other thread was between lock and unlock during the call");
        interest[m]--;
        mvh_counter[mvh_counter_id("trylock_busy")]++;
        if (spinner) mvsim_user_point(); else myth_yield();
      }
    } else {
      interest[m]++; enter_events[m]++;
      for (;;) {
        struct timespec dl; mvsim_now_ts(&dl);
        uint64_t hh = wl_mix(h, mvsim_step());
        if (hh % 4 == 0) dl.tv_sec -= 1;
        else { dl.tv_nsec += (long)((hh >> 8) % 2000000); if (dl.tv_nsec >= 1000000000L) { dl.tv_nsec -= 1000000000L; dl.tv_sec++; } }
        int rc = myth_mutex_timedlock(&MX[m], &dl);
        if (rc == 0) break;
        MVH_CHECK(rc == ETIMEDOUT, "C04-TIMEDLOCK-RC", "myth_mutex_timedlock returned %d", rc);
        uint64_t dl_ns = (uint64_t)dl.tv_sec * 1000000000ULL + (uint64_t)dl.tv_nsec;
        MVH_CHECK(mvsim_last_clock_ns() > dl_ns, "C20-TIMEDLOCK-EARLY", "timedlock timed out before its deadline");
        mvh_counter[mvh_counter_id("timedlock_timeouts")]++;
        myth_yield();
      }
    }
    /* critical section */
    occ[m]++;
    MVH_CHECK(occ[m] == 1, "C04-MUTEX", "two threads inside the critical section of mutex %d (thread %ld entered, occupancy %d)", m, t, occ[m]);
    for (long k = 0; k < P[M_CS_POINTS]; k++) {
      YIELD(h + 17 * k);
      MVH_CHECK(occ[m] == 1, "C04-MUTEX", "mutual exclusion broken on mutex %d: occupancy %d inside the critical section", m, occ[m]);
    }
    if ((int)((h >> 40) % 1000) < P[M_HELPER_PM]) {
      /* the holder needs a third thread to make progress while lockers are blocked */
      myth_thread_t ht = myth_create(helper_fn, (void *)0x77);
      void *hr = 0; myth_join(ht, &hr);
      MVH_CHECK(hr == (void *)0x77, "C01-JOIN-VALUE", "helper join value %p", hr);
      MVH_CHECK(occ[m] == 1, "C04-MUTEX", "mutual exclusion broken across a blocking call in the critical section (occupancy %d)", occ[m]);
    }
    acq_count[m]++; acq_by_thread[t]++;
    occ[m]--;
    myth_mutex_unlock(&MX[m]);
    interest[m]--;
  }
  return (void *)(t + 1);
}

static void mutex_run(const long *p, mvsim_runcfg *cfg, mvsim_runstats *st) {
  P = p;
  int n = (int)p[M_NTHREADS]; if (n > MAXT) n = MAXT;
  if (n > 40) { cfg->budget1 += 600UL * (uint64_t)n * (uint64_t)p[M_NACQ]; cfg->budget2 += 6000UL * (uint64_t)n * (uint64_t)p[M_NACQ]; }
  wl_begin(cfg, p[Q_NWORKERS], 32, p[Q_QSIZE], (int)p[Q_PFIRST]);
  for (int cyc = 0, ncyc = n > 40 ? 1 : NCYCLES(); cyc < ncyc; cyc++) {
  memset((void *)occ, 0, sizeof occ); memset((void *)interest, 0, sizeof interest);
  memset((void *)enter_events, 0, sizeof enter_events); memset((void *)acq_count, 0, sizeof acq_count);
  memset(acq_by_thread, 0, sizeof acq_by_thread);
  for (int m = 0; m < p[M_NMUTEX]; m++) myth_mutex_init(&MX[m], 0);
  spawn_all(n, mutex_thread);
  join_all(n);
  long tot = 0;
  for (int m = 0; m < p[M_NMUTEX]; m++) { tot += acq_count[m]; MVH_CHECK(interest[m] == 0 && occ[m] == 0, "C04-MUTEX", "witness counters not zero at the end"); }
  MVH_CHECK(tot == (long)n * p[M_NACQ], "C04-COUNT", "%ld acquisitions counted, expected %ld", tot, (long)n * p[M_NACQ]);
  for (int m = 0; m < p[M_NMUTEX]; m++) { int rc = myth_mutex_destroy(&MX[m]); MVH_CHECK(rc == 0, "C04-DESTROY", "myth_mutex_destroy returned %d", rc); }
  }
  if (wl_total_blocks) mvh_run_flags |= 1;
  wl_end(st, 1);
}
const mvh_class wl_mutex = { "mutex", M_NP, mutex_names, mutex_gen, mutex_run, 0, 0 };

/* ================================================================== */
/* cond (C05)                                                          */
/* ================================================================== */
enum { C_SHAPE = Q_COMMON, C_NP, C_NC, C_CAP, C_K, C_NWAIT, C_ROUNDS, C_SIGOUT, C_NPAR };
static const char *const cond_names[] = { COMMON_NAMES, "shape", "np", "nc", "cap", "k", "nwaiters", "rounds", "signal_outside" };
static myth_mutex_t cm; static myth_cond_t c_not_full, c_not_empty, c_gate;
static long buf[8], bcount, bhead, btail;
static int seen_item[4096];
static volatile int c_occ, gate_open, gate_waiting, gate_released, turn, void_flag, void_returns, void_early;
static long consumed_total, produced_total;

static void cond_gen(mvsim_rng *r, long *p, int tier) {
  p[C_SHAPE] = mvh_range(r, 0, 4);
  p[C_NP] = mvh_range(r, 1, tier ? 6 : 4);
  p[C_NC] = mvh_range(r, 1, tier ? 6 : 4);
  p[C_CAP] = mvh_range(r, 1, 4);
  p[C_K] = mvh_range(r, 1, tier ? 6 : 3);
  p[C_NWAIT] = mvh_range(r, 1, tier ? 16 : 8);
  p[C_ROUNDS] = mvh_range(r, 1, tier ? 30 : 10);
  p[C_SIGOUT] = mvh_chance(r, 500);   /* signal/broadcast after unlocking the mutex (legal idiom) */
  gen_common(r, p, 20);
  /* occasionally a crowd at the gate (batching / counter-width boundaries in the wake-up path) */
  if (mvh_chance(r, tier ? 60 : 30)) {
    static const long crowd[] = { 31, 32, 33, 64, 65, 127, 128, 129, 255, 256, 257, 258, 300, 511, 512, 513, 1000 };
    p[C_SHAPE] = 1; p[C_NWAIT] = mvh_pick(r, crowd, 17); p[Q_QSIZE] = 2 * p[C_NWAIT] + 64; p[Q_YIELD_PM] = 100;
  } else if (mvh_chance(r, 150)) p[C_SHAPE] = 5;   /* generation gate whose cond is destroyed and re-initialised right after a broadcast */
}
#define ENTER_CS() do { c_occ++; MVH_CHECK(c_occ == 1, "C05-MUTEX-HELD", "thread is inside the monitor without holding the mutex exclusively (occupancy %d)", c_occ); } while (0)
#define LEAVE_CS() do { c_occ--; } while (0)
static void cwait(myth_cond_t *c) {
  LEAVE_CS();
  int rc = myth_cond_wait(c, &cm);
  MVH_CHECK(rc == 0, "C05-WAIT-RC", "myth_cond_wait returned %d", rc);
  c_occ++;
  MVH_CHECK(c_occ == 1, "C05-MUTEX-HELD", "cond_wait returned without holding the mutex (occupancy %d)", c_occ);
}
static void *bb_producer(void *arg) {
  long t = (long)arg, items = P[C_NC] * P[C_K];
  for (long i = 0; i < items; i++) {
    YIELD(t * 997 + i);
    myth_mutex_lock(&cm); ENTER_CS();
    while (bcount == P[C_CAP]) cwait(&c_not_full);
    buf[btail] = t * items + i; btail = (btail + 1) % P[C_CAP]; bcount++; produced_total++;
    mvsim_user_point();
    if (!P[C_SIGOUT]) myth_cond_signal(&c_not_empty);
    LEAVE_CS(); myth_mutex_unlock(&cm);
    if (P[C_SIGOUT]) { mvsim_user_point(); myth_cond_signal(&c_not_empty); }
  }
  return (void *)(t + 1);
}
static void *bb_consumer(void *arg) {
  long t = (long)arg - P[C_NP], quota = P[C_NP] * P[C_K];
  for (long i = 0; i < quota; i++) {
    YIELD(t * 991 + i + 5000);
    myth_mutex_lock(&cm); ENTER_CS();
    while (bcount == 0) cwait(&c_not_empty);
    long x = buf[bhead]; bhead = (bhead + 1) % P[C_CAP]; bcount--; consumed_total++;
    MVH_CHECK(x >= 0 && x < 4096 && seen_item[x] == 0, "C05-ITEM", "item %ld consumed twice or never produced", x);
    seen_item[x] = 1;
    mvsim_user_point();
    if (!P[C_SIGOUT]) myth_cond_signal(&c_not_full);
    LEAVE_CS(); myth_mutex_unlock(&cm);
    if (P[C_SIGOUT]) { mvsim_user_point(); myth_cond_signal(&c_not_full); }
  }
  return (void *)((long)arg + 1);
}
static void *gate_waiter(void *arg) {
  YIELD((long)arg * 31);
  myth_mutex_lock(&cm); ENTER_CS();
  gate_waiting++;
  while (!gate_open) cwait(&c_gate);
  gate_released++;
  LEAVE_CS(); myth_mutex_unlock(&cm);
  return (void *)((long)arg + 1);
}
static void *turn_thread(void *arg) {
  long me = (long)arg;
  for (long r = 0; r < P[C_ROUNDS]; r++) {
    myth_mutex_lock(&cm); ENTER_CS();
    while (turn != me) cwait(&c_gate);
    turn = 1 - (int)me;
    YIELD(r * 13 + me);
    int use_signal = (int)((wl_mix(P[Q_SEED], r) >> 7) & 1);
    if (!P[C_SIGOUT]) { if (use_signal) myth_cond_signal(&c_gate); else myth_cond_broadcast(&c_gate); }
    LEAVE_CS(); myth_mutex_unlock(&cm);
    if (P[C_SIGOUT]) { mvsim_user_point(); if (use_signal) myth_cond_signal(&c_gate); else myth_cond_broadcast(&c_gate); }
  }
  return (void *)(me + 1);
}
static void *void_waiter(void *arg) {
  myth_mutex_lock(&cm); ENTER_CS();
  while (!void_flag) { cwait(&c_gate); void_returns++; if (!void_flag) void_early++; }
  LEAVE_CS(); myth_mutex_unlock(&cm);
  return (void *)((long)arg + 1);
}
/* shape 5: generation gate over several rounds.  The opener broadcasts with the mutex held and, in some rounds, destroys the
   condition variable straight away (legal: the broadcast has unblocked every waiter, none is blocked on it any more -- the
   POSIX rationale's own example), scribbles over it and initialises it again for the next round, all before the woken
   threads have run. */
static volatile int rg_gen, rg_inside; static volatile long rg_done[16];
static void *recycle_waiter(void *arg) {
  long me = (long)arg, rounds = P[C_ROUNDS] > 5 ? 5 : P[C_ROUNDS];
  for (long r = 0; r < rounds; r++) {
    YIELD(me * 31 + r);
    myth_mutex_lock(&cm); ENTER_CS();
    int g = rg_gen; rg_inside++;
    while (rg_gen == g) cwait(&c_gate);
    rg_done[me]++;
    LEAVE_CS(); myth_mutex_unlock(&cm);
  }
  return (void *)(me + 1);
}
/* shape 4: counting semaphore; N waiters block, N posters add a token each and signal */
static volatile long sem_count, sem_taken, sem_blocked;
static void *sem_waiter(void *arg) {
  YIELD((long)arg * 37);
  myth_mutex_lock(&cm); ENTER_CS();
  while (sem_count == 0) { sem_blocked++; cwait(&c_gate); sem_blocked--; }
  sem_count--; sem_taken++;
  LEAVE_CS(); myth_mutex_unlock(&cm);
  return (void *)((long)arg + 1);
}
static void *sem_poster(void *arg) {
  YIELD((long)arg * 41);
  myth_mutex_lock(&cm); ENTER_CS();
  sem_count++;
  if (!P[C_SIGOUT]) myth_cond_signal(&c_gate);
  LEAVE_CS(); myth_mutex_unlock(&cm);
  if (P[C_SIGOUT]) { mvsim_user_point(); myth_cond_signal(&c_gate); }
  return (void *)((long)arg + 1);
}
static void *void_setter(void *arg) {
  for (int i = 0; i < 3; i++) YIELD(i + 900);
  myth_mutex_lock(&cm); ENTER_CS();
  void_flag = 1;
  if (!P[C_SIGOUT]) myth_cond_signal(&c_gate);
  LEAVE_CS(); myth_mutex_unlock(&cm);
  if (P[C_SIGOUT]) { mvsim_user_point(); myth_cond_signal(&c_gate); }
  return (void *)((long)arg + 1);
}

static void cond_run(const long *p, mvsim_runcfg *cfg, mvsim_runstats *st) {
  P = p;
  if (p[C_SHAPE] == 1 && p[C_NWAIT] > 16) { cfg->budget1 += 400UL * (uint64_t)p[C_NWAIT]; cfg->budget2 += 4000UL * (uint64_t)p[C_NWAIT]; }
  wl_begin(cfg, p[Q_NWORKERS], 32, p[Q_QSIZE], (int)p[Q_PFIRST]);
  for (int cyc = 0, ncyc = (p[C_SHAPE] == 1 && p[C_NWAIT] > 16) ? 1 : NCYCLES(); cyc < ncyc; cyc++) {
  bcount = bhead = btail = 0; c_occ = 0; gate_open = gate_waiting = gate_released = 0; turn = 0;
  void_flag = void_returns = void_early = 0; consumed_total = produced_total = 0;
  memset(seen_item, 0, sizeof seen_item);
  myth_mutex_init(&cm, 0); myth_cond_init(&c_not_full, 0); myth_cond_init(&c_not_empty, 0); myth_cond_init(&c_gate, 0);
  switch (p[C_SHAPE]) {
    case 0: {
      int np = (int)p[C_NP], nc = (int)p[C_NC];
      for (long i = 0; i < np + nc; i++) { TH[i] = myth_create(i < np ? bb_producer : bb_consumer, (void *)i); YIELD(i + 40); }
      join_all(np + nc);
      long total = (long)np * nc * p[C_K];
      MVH_CHECK(produced_total == total && consumed_total == total && bcount == 0, "C05-COUNT", "produced %ld consumed %ld expected %ld", produced_total, consumed_total, total);
      for (long x = 0; x < total; x++) MVH_CHECK(seen_item[x] == 1, "C05-ITEM", "item %ld was never consumed", x);
      break;
    }
    case 1: {
      int n = (int)p[C_NWAIT]; if (n > MAXT - 2) n = MAXT - 2;
      spawn_all(n, gate_waiter);
      for (;;) {   /* opener: wait (politely) until all waiters are inside wait */
        myth_mutex_lock(&cm); ENTER_CS();
        int all = gate_waiting == n;
        if (all) { gate_open = 1; if (!p[C_SIGOUT]) { if (n == 1 && (p[Q_SEED] & 1)) myth_cond_signal(&c_gate); else myth_cond_broadcast(&c_gate); } }
        LEAVE_CS(); myth_mutex_unlock(&cm);
        if (all && p[C_SIGOUT]) { mvsim_user_point(); if (n == 1 && (p[Q_SEED] & 1)) myth_cond_signal(&c_gate); else myth_cond_broadcast(&c_gate); }
        if (all) break;
        myth_yield();
      }
      join_all(n);
      MVH_CHECK(gate_released == n, "C05-BROADCAST", "broadcast released %d of %d waiters", gate_released, n);
      break;
    }
    case 2:
      spawn_all(2, turn_thread);
      join_all(2);
      break;
    case 4: {
      int n = (int)p[C_NWAIT]; if (n > 30) n = 30;
      sem_count = sem_taken = sem_blocked = 0;
      for (long i = 0; i < n; i++) { TH[i] = myth_create(sem_waiter, (void *)i); YIELD(i + 50); }
      /* usually let the waiters block first, so that every signal finds sleepers */
      if (wl_mix(P[Q_SEED], 4242) % 4) for (int k = 0; k < 3 * n; k++) { myth_mutex_lock(&cm); int b = sem_blocked == n; myth_mutex_unlock(&cm); if (b) break; myth_yield(); }
      for (long i = n; i < 2 * n; i++) { TH[i] = myth_create(sem_poster, (void *)i); YIELD(i + 60); }
      join_all(2 * n);
      MVH_CHECK(sem_taken == n && sem_count == 0, "C05-COUNT", "semaphore: %ld tokens taken, %ld left, expected %d taken", (long)sem_taken, (long)sem_count, n);
      break;
    }
    case 5: {
      int n = (int)p[C_NWAIT]; if (n > 8) n = 8;
      long rounds = p[C_ROUNDS] > 5 ? 5 : p[C_ROUNDS];
      rg_gen = rg_inside = 0; memset((void *)rg_done, 0, sizeof rg_done);
      spawn_all(n, recycle_waiter);
      for (long r = 0; r < rounds; r++) {
        for (;;) {
          myth_mutex_lock(&cm); ENTER_CS();
          int all = rg_inside == n * (r + 1);
          if (all) {
            rg_gen++;
            if (n == 1 && (wl_mix(p[Q_SEED], r + 77) & 1)) myth_cond_signal(&c_gate); else myth_cond_broadcast(&c_gate);
            if (wl_mix(p[Q_SEED], r + 99) % 3) {
              MVH_CHECK(myth_cond_destroy(&c_gate) == 0, "C05-DESTROY", "destroy after broadcast failed");
              memset(&c_gate, (int)(wl_mix(p[Q_SEED], r) & 0xff), sizeof c_gate);
              myth_cond_init(&c_gate, 0);
            }
          }
          LEAVE_CS(); myth_mutex_unlock(&cm);
          if (all) break;
          myth_yield();
        }
      }
      join_all(n);
      for (int i = 0; i < n; i++) MVH_CHECK(rg_done[i] == rounds, "C05-BROADCAST", "waiter %d passed the gate %ld times in %ld rounds", i, (long)rg_done[i], rounds);
      break;
    }
    default: {
      /* signals into the void must have no effect */
      for (long i = 0; i < 1 + p[C_K]; i++) { if (i & 1) myth_cond_broadcast(&c_gate); else myth_cond_signal(&c_gate); mvsim_user_point(); }
      TH[0] = myth_create(void_waiter, (void *)0L);
      YIELD(77);
      TH[1] = myth_create(void_setter, (void *)1L);
      join_all(2);
      MVH_CHECK(void_early == 0, "C05-SPURIOUS", "cond_wait returned %d time(s) although nobody had signalled since the waiter entered wait (signals with no waiter must have no effect)", void_early);
      MVH_CHECK(void_returns <= 1, "C05-SPURIOUS", "cond_wait returned %d times for one signal", void_returns);
      break;
    }
  }
  MVH_CHECK(c_occ == 0, "C05-MUTEX-HELD", "monitor occupancy %d at the end", c_occ);
  MVH_CHECK(myth_cond_destroy(&c_not_full) == 0 && myth_cond_destroy(&c_not_empty) == 0 && myth_cond_destroy(&c_gate) == 0 && myth_mutex_destroy(&cm) == 0, "C05-DESTROY", "destroy failed");
  }
  if (wl_total_blocks) mvh_run_flags |= 1;
  wl_end(st, 1);
}
const mvh_class wl_cond = { "cond", C_NPAR, cond_names, cond_gen, cond_run, 0, 0 };

/* ================================================================== */
/* barrier (C06)                                                       */
/* ================================================================== */
enum { B_N = Q_COMMON, B_ROUNDS, B_RACER, B_NPAR };
static const char *const barrier_names[] = { COMMON_NAMES, "n", "rounds", "racer" };
static myth_barrier_t BAR;
static volatile int arrivals[64], serials[64], passed[64];

static void barrier_gen(mvsim_rng *r, long *p, int tier) {
  static const long ns[] = { 1, 2, 2, 3, 3, 4, 7, 8, 16, 33 };
  p[B_N] = mvh_pick(r, ns, tier ? 10 : 8);
  p[B_ROUNDS] = mvh_range(r, 1, tier ? 20 : 8);
  p[B_RACER] = mvh_chance(r, 500) ? (long)mvsim_rng_below(r, (uint64_t)p[B_N]) : -1;
  gen_common(r, p, p[B_N]);
  /* occasionally a crowd (batching / counter-width boundaries in the wake-up path) */
  if (mvh_chance(r, tier ? 50 : 25)) {
    static const long crowd[] = { 63, 64, 65, 127, 128, 129, 255, 256, 257, 300, 511, 512, 513, 1000 };
    p[B_N] = mvh_pick(r, crowd, 14); p[B_ROUNDS] = mvh_range(r, 1, 3); p[Q_QSIZE] = 2 * p[B_N] + 64; p[Q_YIELD_PM] = 100;
    p[B_RACER] = mvh_chance(r, 500) ? (long)mvsim_rng_below(r, (uint64_t)p[B_N]) : -1;
  }
}
static void *barrier_thread(void *arg) {
  long t = (long)arg;
  for (long r = 0; r < P[B_ROUNDS]; r++) {
    if (t != P[B_RACER]) YIELD(t * 101 + r);
    arrivals[r]++;
    int rc = myth_barrier_wait(&BAR);
    MVH_CHECK(arrivals[r] == P[B_N], "C06-EARLY", "participant %ld passed round %ld when only %d of %ld had arrived", t, r, arrivals[r], P[B_N]);
    if (rc == MYTH_BARRIER_SERIAL_THREAD) serials[r]++;
    else MVH_CHECK(rc == 0, "C06-RC", "myth_barrier_wait returned %d", rc);
    passed[r]++;
  }
  return (void *)(t + 1);
}
static void barrier_run(const long *p, mvsim_runcfg *cfg, mvsim_runstats *st) {
  P = p;
  int n = (int)p[B_N]; if (n > MAXT - 2) n = MAXT - 2;
  if (n > 40) { cfg->budget1 += 400UL * (uint64_t)n * (uint64_t)p[B_ROUNDS]; cfg->budget2 += 4000UL * (uint64_t)n * (uint64_t)p[B_ROUNDS]; }
  wl_begin(cfg, p[Q_NWORKERS], 32, p[Q_QSIZE], (int)p[Q_PFIRST]);
  for (int cyc = 0, ncyc = n > 40 ? 1 : NCYCLES(); cyc < ncyc; cyc++) {
  memset((void *)arrivals, 0, sizeof arrivals); memset((void *)serials, 0, sizeof serials); memset((void *)passed, 0, sizeof passed);
  myth_barrier_init(&BAR, 0, n);
  spawn_all(n, barrier_thread);
  join_all(n);
  for (long r = 0; r < p[B_ROUNDS]; r++) {
    MVH_CHECK(serials[r] == 1, "C06-SERIAL", "round %ld: %d participants got the serial-thread indicator", r, serials[r]);
    MVH_CHECK(passed[r] == n, "C06-RELEASE", "round %ld: %d of %d participants returned", r, passed[r], n);
  }
  MVH_CHECK(myth_barrier_destroy(&BAR) == 0, "C06-DESTROY", "barrier destroy failed");
  }
  if (wl_total_blocks) mvh_run_flags |= 1;
  wl_end(st, 1);
}
const mvh_class wl_barrier = { "barrier", B_NPAR, barrier_names, barrier_gen, barrier_run, 0, 0 };

/* ================================================================== */
/* join counter (C07)                                                  */
/* ================================================================== */
enum { J_N = Q_COMMON, J_NWAIT, J_NDEC, J_LATE, J_NPAR };
static const char *const jc_names[] = { COMMON_NAMES, "n", "nwaiters", "ndeccers", "late" };
static myth_join_counter_t JC;
static volatile long dec_invoked, waiters_released;

static void jc_gen(mvsim_rng *r, long *p, int tier) {
  static const long ns[] = { 0, 1, 2, 3, 4, 7, 8, 15, 16, 31, 32, 63, 64 };
  p[J_N] = mvh_pick(r, ns, tier ? 13 : 11);
  p[J_NWAIT] = mvh_range(r, 0, 8);
  p[J_NDEC] = mvh_range(r, 1, 6);
  p[J_LATE] = mvh_range(r, 0, 2);
  gen_common(r, p, 20);
  /* occasionally many decrements and/or a crowd of waiters (field widths of the packed state word) */
  if (mvh_chance(r, tier ? 50 : 25)) {
    static const long bign[] = { 65, 127, 128, 129, 255, 256, 257, 1000, 1023, 1024, 1025, 4095, 4096, 4097 };
    static const long crowd[] = { 0, 1, 8, 31, 32, 33, 64, 127, 128, 129, 255, 256, 257, 300 };
    p[J_N] = mvh_pick(r, bign, 14); p[J_NWAIT] = mvh_pick(r, crowd, 14); p[Q_QSIZE] = 2 * p[J_NWAIT] + 80; p[Q_YIELD_PM] = 100;
  }
}
static void *jc_waiter(void *arg) {
  long t = (long)arg;
  for (long k = 0; k < (long)(wl_mix(P[Q_SEED], t) % 4); k++) YIELD(t * 7 + k);
  int rc = myth_join_counter_wait(&JC);
  MVH_CHECK(rc == 0, "C07-RC", "join_counter_wait returned %d", rc);
  MVH_CHECK(dec_invoked >= P[J_N], "C07-EARLY", "wait returned when only %ld of %ld decrements had been issued", (long)dec_invoked, P[J_N]);
  waiters_released++;
  return (void *)(t + 1);
}
static void *jc_deccer(void *arg) {
  long t = (long)arg - P[J_NWAIT];
  long nd = P[J_NDEC] < 1 ? 1 : P[J_NDEC];
  for (long i = t; i < P[J_N]; i += nd) {
    YIELD(t * 53 + i);
    dec_invoked++;
    int rc = myth_join_counter_dec(&JC);
    MVH_CHECK(rc == 0, "C07-RC", "join_counter_dec returned %d", rc);
  }
  return (void *)((long)arg + 1);
}
static void *jc_late(void *arg) {
  myth_thread_t self = myth_self();
  uint64_t b0 = wl_blocks_of(self);
  int rc = myth_join_counter_wait(&JC);
  MVH_CHECK(rc == 0, "C07-RC", "late join_counter_wait returned %d", rc);
  MVH_CHECK(wl_blocks_of(self) == b0, "C07-LATE-BLOCKED", "a wait issued after the last decrement blocked");
  return (void *)((long)arg + 1);
}
static void jc_run(const long *p, mvsim_runcfg *cfg, mvsim_runstats *st) {
  P = p;
  int nw = (int)p[J_NWAIT], nd = (int)(p[J_NDEC] < 1 ? 1 : p[J_NDEC]);
  if (nw > MAXT - 10) nw = MAXT - 10;
  if (nw > 16 || p[J_N] > 64) { cfg->budget1 += 400UL * (uint64_t)(nw + p[J_N]); cfg->budget2 += 4000UL * (uint64_t)(nw + p[J_N]); }
  wl_begin(cfg, p[Q_NWORKERS], 32, p[Q_QSIZE], (int)p[Q_PFIRST]);
  for (int cyc = 0, ncyc = (nw > 16 || p[J_N] > 64) ? 1 : NCYCLES(); cyc < ncyc; cyc++) {
  dec_invoked = 0; waiters_released = 0;
  myth_join_counter_init(&JC, 0, p[J_N]);
  /* interleave creation of waiters and decrementers */
  for (long i = 0; i < nw + nd; i++) {
    long k = (wl_mix(P[Q_SEED], 333) & 1) ? i : nw + nd - 1 - i;
    TH[k] = myth_create(k < nw ? jc_waiter : jc_deccer, (void *)k);
    YIELD(i + 60);
  }
  join_all(nw + nd);
  MVH_CHECK(waiters_released == nw, "C07-RELEASE", "%ld of %d waiters were released", (long)waiters_released, nw);
  for (long i = 0; i < p[J_LATE]; i++) TH[i] = myth_create(jc_late, (void *)i);
  join_all((int)p[J_LATE]);
  }
  if (wl_total_blocks) mvh_run_flags |= 1;
  wl_end(st, 1);
}
const mvh_class wl_jc = { "jc", J_NPAR, jc_names, jc_gen, jc_run, 0, 0 };

/* ================================================================== */
/* uncond (C08): single-slot hand-off following the documented protocol */
/* ================================================================== */
enum { U_ITEMS = Q_COMMON, U_PAIRS, U_DISPATCH, U_NPAR };
static const char *const uncond_names[] = { COMMON_NAMES, "items", "pairs", "dispatch" };
enum { st_full = 1, st_sleeping = 2 };
static struct { volatile long p; myth_uncond_t u; volatile long signals, wakeups; } UC[4];

static void uncond_gen(mvsim_rng *r, long *p, int tier) {
  p[U_ITEMS] = mvh_range(r, 1, tier ? (mvh_chance(r, 100) ? 1000 : 60) : 25);
  p[U_PAIRS] = mvh_range(r, 1, 3);
  gen_common(r, p, 14);
  p[U_DISPATCH] = mvh_chance(r, 250) ? mvh_range(r, 2, 4) : 0;   /* several different waiters taking turns on ONE uncond */
}
static void uc_wait(int s) {
  int rc = myth_uncond_wait(&UC[s].u);
  MVH_CHECK(rc == 0, "C08-RC", "myth_uncond_wait returned %d", rc);
  UC[s].wakeups++;
  MVH_CHECK(UC[s].wakeups <= UC[s].signals, "C08-NO-SIGNAL", "waiter resumed without a signal (%ld wake-ups, %ld signals issued)", (long)UC[s].wakeups, (long)UC[s].signals);
}
static void uc_signal(int s) {
  UC[s].signals++;
  long w0 = UC[s].wakeups; (void)w0;
  int rc = myth_uncond_signal(&UC[s].u);
  MVH_CHECK(rc == 0, "C08-RC", "myth_uncond_signal returned %d", rc);
}
static void uc_put(int s, long x) {
  for (;;) {
    mvsim_user_point();
    long old = UC[s].p;
    mvsim_user_point();
    if (old & st_full) {
      MVH_CHECK((old & st_sleeping) == 0, "C08-PROTOCOL", "two sleepers");
      if (__sync_bool_compare_and_swap(&UC[s].p, old, old | st_sleeping)) uc_wait(s);
    } else {
      if (__sync_bool_compare_and_swap(&UC[s].p, old, (x << 2) | st_full)) {
        if (old & st_sleeping) uc_signal(s);
        return;
      }
    }
  }
}
static long uc_get(int s) {
  for (;;) {
    mvsim_user_point();
    long old = UC[s].p;
    mvsim_user_point();
    if (old & st_full) {
      if (__sync_bool_compare_and_swap(&UC[s].p, old, 0)) {
        if (old & st_sleeping) uc_signal(s);
        return old >> 2;
      }
    } else {
      MVH_CHECK((old & st_sleeping) == 0, "C08-PROTOCOL", "two sleepers");
      if (__sync_bool_compare_and_swap(&UC[s].p, old, old | st_sleeping)) uc_wait(s);
    }
  }
}
static void *uc_thread(void *arg) {
  long t = (long)arg; int s = (int)(t / 2);
  for (long i = 0; i < P[U_ITEMS]; i++) {
    if ((wl_mix(P[Q_SEED], t * 4099 + i) % 1000) < (uint64_t)P[Q_YIELD_PM] / 4) myth_yield();
    if (t & 1) { long x = uc_get(s); MVH_CHECK(x == i, "C08-SEQUENCE", "slot %d: got %ld, expected %ld", s, x, i); }
    else uc_put(s, i);
  }
  return (void *)(t + 1);
}
/* dispatcher shape: k different waiters use one uncond in consecutive rendez-vous; each announces itself by a CAS on
   a shared word (the documented protocol) and the dispatcher signals after it has seen the announcement -- possibly
   before the waiter has reached myth_uncond_wait, possibly long after.  The next waiter may announce itself as soon
   as the previous signal has returned, i.e. before the previously released waiter has run again. */
static struct { myth_uncond_t u; volatile long announce, turn; volatile long sig[4], wake[4]; } DU;
static void *du_waiter(void *arg) {
  long i = (long)arg - 100;
  for (long r = 0; r < P[U_ITEMS]; r++) {
    while (DU.turn != i + 1) { myth_yield(); mvsim_user_point(); }
    DU.turn = 0;
    while (!__sync_bool_compare_and_swap(&DU.announce, 0, i + 1)) mvsim_user_point();
    if (wl_mix(P[Q_SEED], 6100 + i * 131 + r) & 1) mvsim_user_point();
    int rc = myth_uncond_wait(&DU.u);
    MVH_CHECK(rc == 0, "C08-RC", "myth_uncond_wait returned %d", rc);
    DU.wake[i]++;
    MVH_CHECK(DU.wake[i] <= DU.sig[i], "C08-NO-SIGNAL", "waiter %ld resumed without a signal addressed to it (%ld wake-ups, %ld signals)", i, (long)DU.wake[i], (long)DU.sig[i]);
  }
  return arg;
}
static void *du_dispatcher(void *arg) {
  long k = P[U_DISPATCH];
  for (long j = 0; j < k * P[U_ITEMS]; j++) {
    long tgt = j % k;
    DU.turn = tgt + 1;                                   /* only now may the next waiter announce itself */
    while (DU.announce != tgt + 1) { myth_yield(); mvsim_user_point(); }
    DU.announce = 0;
    DU.sig[tgt]++;
    int rc = myth_uncond_signal(&DU.u);
    MVH_CHECK(rc == 0, "C08-RC", "myth_uncond_signal returned %d", rc);
  }
  return arg;
}
static void uncond_run(const long *p, mvsim_runcfg *cfg, mvsim_runstats *st) {
  P = p;
  int pairs = (int)p[U_PAIRS];
  memset((void *)UC, 0, sizeof UC);
  cfg->budget1 += 400 * (uint64_t)p[U_ITEMS] * (pairs + 4); cfg->budget2 += 4000 * (uint64_t)p[U_ITEMS] * (pairs + 4);
  wl_begin(cfg, p[Q_NWORKERS], 32, p[Q_QSIZE], (int)p[Q_PFIRST]);
  for (int s = 0; s < pairs; s++) myth_uncond_init(&UC[s].u);
  int k = (int)p[U_DISPATCH]; if (k < 0 || k == 1) k = 0; if (k > 4) k = 4;
  myth_thread_t dth[5];
  if (k) {
    memset((void *)&DU, 0, sizeof DU); myth_uncond_init(&DU.u);
    for (long i = 0; i < k; i++) { dth[i] = myth_create(du_waiter, (void *)(100 + i)); YIELD(6600 + i); }
    dth[k] = myth_create(du_dispatcher, 0);
  }
  spawn_all(2 * pairs, uc_thread);
  join_all(2 * pairs);
  if (k) {
    for (int i = 0; i <= k; i++) { void *r; myth_join(dth[i], &r); }
    for (int i = 0; i < k; i++) MVH_CHECK(DU.wake[i] == DU.sig[i] && DU.sig[i] == p[U_ITEMS], "C08-LOST", "dispatcher shape, waiter %d: %ld signals, %ld wake-ups, %ld expected", i, (long)DU.sig[i], (long)DU.wake[i], p[U_ITEMS]);
    myth_uncond_destroy(&DU.u);
  }
  for (int s = 0; s < pairs; s++) {
    MVH_CHECK(UC[s].wakeups == UC[s].signals, "C08-LOST", "slot %d: %ld signals but %ld wake-ups", s, (long)UC[s].signals, (long)UC[s].wakeups);
    myth_uncond_destroy(&UC[s].u);
  }
  if (wl_total_blocks) mvh_run_flags |= 1;
  wl_end(st, 1);
}
const mvh_class wl_uncond = { "uncond", U_NPAR, uncond_names, uncond_gen, uncond_run, 0, 0 };

/* ================================================================== */
/* felock (C09): single-slot mailbox                                   */
/* ================================================================== */
enum { F_NP = Q_COMMON, F_NC, F_K, F_READERS, F_PEEKERS, F_NPAR };
static const char *const felock_names[] = { COMMON_NAMES, "np", "nc", "k", "readers", "peekers" };
static myth_felock_t FE;
static volatile long fe_slot, fe_consumed;
static int fe_seen[4096];

static void felock_gen(mvsim_rng *r, long *p, int tier) {
  p[F_NP] = mvh_range(r, 1, 4); p[F_NC] = mvh_range(r, 1, 4); p[F_K] = mvh_range(r, 1, tier ? 6 : 3);
  p[F_READERS] = mvh_range(r, 0, 2);
  p[F_PEEKERS] = mvh_chance(r, 500) ? mvh_range(r, 1, 4) : 0;
  gen_common(r, p, 12);
}
static void *fe_producer(void *arg) {
  long t = (long)arg, items = P[F_NC] * P[F_K];
  for (long i = 0; i < items; i++) {
    YIELD(t * 77 + i);
    int rc = myth_felock_wait_and_lock(&FE, 0);
    MVH_CHECK(rc == 0, "C09-RC", "wait_and_lock returned %d", rc);
    MVH_CHECK(myth_felock_status(&FE) == 0, "C09-STATUS", "wait_and_lock(0) returned with status %d", myth_felock_status(&FE));
    fe_slot = t * items + i + 1;
    mvsim_user_point();
    myth_felock_mark_and_signal(&FE, 1);
  }
  return (void *)(t + 1);
}
static void *fe_consumer(void *arg) {
  long quota = P[F_NP] * P[F_K];
  for (long i = 0; i < quota; i++) {
    YIELD((long)arg * 79 + i);
    int rc = myth_felock_wait_and_lock(&FE, 1);
    MVH_CHECK(rc == 0, "C09-RC", "wait_and_lock returned %d", rc);
    MVH_CHECK(myth_felock_status(&FE) == 1, "C09-STATUS", "wait_and_lock(1) returned with status %d", myth_felock_status(&FE));
    long x = fe_slot - 1; fe_slot = 0;
    MVH_CHECK(x >= 0 && x < 4096 && fe_seen[x] == 0, "C09-ITEM", "item %ld consumed twice or never produced", x);
    fe_seen[x] = 1; fe_consumed++;
    mvsim_user_point();
    myth_felock_mark_and_signal(&FE, 0);
  }
  return (void *)((long)arg + 1);
}
static void *fe_reader(void *arg) {
  for (int i = 0; i < 4; i++) {
    YIELD((long)arg * 83 + i);
    myth_felock_lock(&FE);
    int s = myth_felock_status(&FE);
    MVH_CHECK((s == 0 && fe_slot == 0) || (s == 1 && fe_slot != 0), "C09-STATUS", "status %d inconsistent with slot %ld under the lock", s, (long)fe_slot);
    mvsim_user_point();
    myth_felock_unlock(&FE);
  }
  return (void *)((long)arg + 1);
}
/* a peeker waits for 'full', reads the slot and leaves it full (readFF): its mark_and_signal(1) does
   not change the status but must pass the wake-up on to the next thread waiting for 'full' */
static volatile long fe_peeks;
static void *fe_peeker(void *arg) {
  for (int i = 0; i < 2; i++) {
    YIELD((long)arg * 89 + i);
    int rc = myth_felock_wait_and_lock(&FE, 1);
    MVH_CHECK(rc == 0, "C09-RC", "wait_and_lock returned %d", rc);
    MVH_CHECK(myth_felock_status(&FE) == 1 && fe_slot != 0, "C09-STATUS", "peeker got the lock with status %d slot %ld", myth_felock_status(&FE), (long)fe_slot);
    fe_peeks++;
    mvsim_user_point();
    myth_felock_mark_and_signal(&FE, 1);
  }
  return (void *)((long)arg + 1);
}
/* one-shot exchanges ("futures"): each round uses a felock that the consumer initialises, and destroys and overwrites
   as soon as it has taken the item -- legal, because mark_and_signal hands the lock over as its last act on the object */
static struct { myth_felock_t fe; volatile long item; } *OS;
static volatile long os_ready, os_taken;
static void *os_producer(void *arg) {
  long rounds = (long)arg;
  for (long k = 1; k <= rounds; k++) {
    while (os_ready < k) { myth_yield(); mvsim_user_point(); }
    myth_felock_lock(&OS->fe);
    OS->item = 1000 + k;
    mvsim_user_point();
    myth_felock_mark_and_signal(&OS->fe, 1);
    while (os_taken < k) { myth_yield(); mvsim_user_point(); }   /* the next round's object does not exist before */
  }
  return arg;
}
static void *os_consumer(void *arg) {
  long rounds = (long)arg;
  for (long k = 1; k <= rounds; k++) {
    myth_felock_init(&OS->fe, 0);
    OS->item = 0;
    os_ready = k;
    if (wl_mix(P[Q_SEED], 7300 + k) & 1) {                 /* peek first, then take the lock */
      while (myth_felock_status(&OS->fe) != 1) { myth_yield(); mvsim_user_point(); }
      myth_felock_lock(&OS->fe);
    } else {
      int rc = myth_felock_wait_and_lock(&OS->fe, 1);
      MVH_CHECK(rc == 0, "C09-RC", "wait_and_lock returned %d", rc);
    }
    MVH_CHECK(OS->item == 1000 + k, "C09-ITEM", "one-shot round %ld: item %ld", k, (long)OS->item);
    myth_felock_unlock(&OS->fe);
    myth_felock_destroy(&OS->fe);
    memset((void *)OS, 0xA5, sizeof *OS);                  /* the storage is reused at once */
    os_taken = k;
  }
  return arg;
}
static void felock_run(const long *p, mvsim_runcfg *cfg, mvsim_runstats *st) {
  P = p;
  int np = (int)p[F_NP], nc = (int)p[F_NC], nr = (int)p[F_READERS];
  wl_begin(cfg, p[Q_NWORKERS], 32, p[Q_QSIZE], (int)p[Q_PFIRST]);
  for (int cyc = 0, ncyc = NCYCLES(); cyc < ncyc; cyc++) {
  fe_slot = 0; fe_consumed = 0; memset(fe_seen, 0, sizeof fe_seen);
  myth_felock_init(&FE, 0);
  int npk = (int)p[F_PEEKERS]; fe_peeks = 0;
  /* peekers may start before, between or after the others */
  for (long i = 0; i < np + nc + nr + npk; i++) {
    long k = (wl_mix(P[Q_SEED], 555) & 1) ? i : np + nc + nr + npk - 1 - i;
    TH[k] = myth_create(k < np ? fe_producer : k < np + nc ? fe_consumer : k < np + nc + nr ? fe_reader : fe_peeker, (void *)k);
    YIELD(i + 90);
  }
  /* one-shot exchanges run next to the mailbox (own objects, own threads) */
  long os_rounds = (wl_mix(P[Q_SEED], 7200) % 3 == 0) ? 3 + (long)(wl_mix(P[Q_SEED], 7201) % 12) : 0;
  myth_thread_t ost[2];
  if (os_rounds) {
    if (!OS) OS = malloc(sizeof *OS);
    os_ready = os_taken = 0;
    ost[0] = myth_create(os_consumer, (void *)os_rounds); ost[1] = myth_create(os_producer, (void *)os_rounds);
  }
  join_all(np + nc + nr);
  if (os_rounds) { void *r; myth_join(ost[0], &r); myth_join(ost[1], &r); }
  if (npk) {
    /* every item has been consumed; fill the slot a last time so that the remaining peeks can complete */
    myth_felock_wait_and_lock(&FE, 0);
    fe_slot = 4095;
    myth_felock_mark_and_signal(&FE, 1);
    for (int i = np + nc + nr; i < np + nc + nr + npk; i++) { void *r = 0; myth_join(TH[i], &r); }
    MVH_CHECK(fe_peeks == 2 * npk, "C09-COUNT", "%ld peeks completed, expected %d", (long)fe_peeks, 2 * npk);
    myth_felock_wait_and_lock(&FE, 1); fe_slot = 0; myth_felock_mark_and_signal(&FE, 0);
  }
  long total = (long)np * nc * p[F_K];
  MVH_CHECK(fe_consumed == total, "C09-COUNT", "%ld items consumed, %ld produced", (long)fe_consumed, total);
  for (long x = 0; x < total; x++) MVH_CHECK(fe_seen[x] == 1, "C09-ITEM", "item %ld was never consumed", x);
  myth_felock_destroy(&FE);
  }
  if (wl_total_blocks) mvh_run_flags |= 1;
  wl_end(st, 1);
}
const mvh_class wl_felock = { "felock", F_NPAR, felock_names, felock_gen, felock_run, 0, 0 };

/* ================================================================== */
/* once (C14)                                                          */
/* ================================================================== */
enum { O_NCALLERS = Q_COMMON, O_NCTL, O_KIND, O_LATE, O_NPAR };
static const char *const once_names[] = { COMMON_NAMES, "ncallers", "nctl", "kind", "late" };
static myth_once_t OC[4];
static volatile int once_count[4], once_done[4];
static myth_mutex_t once_mx;
static void once_body(int c) {
  once_count[c]++;
  MVH_CHECK(once_count[c] == 1, "C14-TWICE", "init routine of control %d executed %d times", c, once_count[c]);
  switch (P[O_KIND]) {
    case 1: for (int i = 0; i < 3; i++) { myth_yield(); mvsim_user_point(); } break;
    case 2: myth_mutex_lock(&once_mx); mvsim_user_point(); myth_mutex_unlock(&once_mx); break;
    case 3: { myth_thread_t t = myth_create(helper_fn, (void *)0x99); void *r = 0; myth_join(t, &r); break; }
    default: mvsim_user_point(); break;
  }
  once_done[c] = 1;      /* last statement of the routine */
}
static void once_init0(void) { once_body(0); }
static void once_init1(void) { once_body(1); }
static void once_init2(void) { once_body(2); }
static void once_init3(void) { once_body(3); }
static void (*const once_fns[4])(void) = { once_init0, once_init1, once_init2, once_init3 };

static void once_gen(mvsim_rng *r, long *p, int tier) {
  p[O_NCALLERS] = mvh_range(r, 1, tier ? 16 : 10);
  p[O_NCTL] = mvh_range(r, 1, 4);
  p[O_KIND] = mvh_range(r, 0, 3);
  p[O_LATE] = mvh_range(r, 0, 3);
  gen_common(r, p, p[O_NCALLERS] + 6);
}
static void *once_holder(void *arg) {
  myth_mutex_lock(&once_mx);
  for (int i = 0; i < 4; i++) YIELD(i + 1234);
  myth_mutex_unlock(&once_mx);
  return (void *)((long)arg + 1);
}
static void *once_caller(void *arg) {
  long t = (long)arg;
  for (long k = 0; k < P[O_NCTL]; k++) {
    int c = (int)((t + k) % P[O_NCTL]);
    YIELD(t * 41 + k);
    int rc = myth_once(&OC[c], once_fns[c]);
    MVH_CHECK(rc == 0, "C14-RC", "myth_once returned %d", rc);
    MVH_CHECK(once_done[c] == 1, "C14-EARLY", "myth_once returned to caller %ld before the init routine of control %d had completed", t, c);
  }
  return (void *)(t + 1);
}
static void once_run(const long *p, mvsim_runcfg *cfg, mvsim_runstats *st) {
  P = p;
  memset((void *)once_count, 0, sizeof once_count); memset((void *)once_done, 0, sizeof once_done);
  memset(OC, 0, sizeof OC);
  int n = (int)p[O_NCALLERS];
  wl_begin(cfg, p[Q_NWORKERS], 32, p[Q_QSIZE], (int)p[Q_PFIRST]);
  myth_mutex_init(&once_mx, 0);
  int extra = 0;
  if (p[O_KIND] == 2) { TH[n] = myth_create(once_holder, (void *)(long)n); extra = 1; }
  spawn_all(n, once_caller);
  join_all(n + extra);
  for (int c = 0; c < p[O_NCTL]; c++) MVH_CHECK(once_count[c] == 1, "C14-COUNT", "init routine of control %d ran %d times", c, once_count[c]);
  /* late calls run nothing and return immediately */
  for (long i = 0; i < p[O_LATE]; i++) {
    int c = (int)(i % p[O_NCTL]);
    myth_once(&OC[c], once_fns[c]);
    MVH_CHECK(once_count[c] == 1, "C14-LATE", "late myth_once ran the init routine again");
  }
  myth_mutex_destroy(&once_mx);
  mvh_run_flags |= (mvsim_probe_count(MYTH_VS_ONCE_SPIN) > 0);
  wl_end(st, 1);
}
const mvh_class wl_once = { "once", O_NPAR, once_names, once_gen, once_run, 0, 0 };
