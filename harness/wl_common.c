/* wl_common.c -- shared start/finish sequence of the whole-library workload classes */
#define _GNU_SOURCE
#include <stdlib.h>
#include <string.h>
#include "myth/myth.h"
#include "mvh.h"
#include "wl_common.h"
#define MYTH_VERIF 1
#include "myth_verif.h"

extern uint32_t mvh_run_flags;

/* BLOCK probe bookkeeping: how often did thread p execute a blocking callback */
static const void *blk_thread[256];
static uint64_t blk_count[256];
static int blk_n;
static mvsim_probe_cb_t extra_cb;
uint64_t wl_total_blocks;

static void common_probe_cb(int site, const void *p, uint64_t step) {
  if (site == MYTH_VP_BLOCK) {
    wl_total_blocks++;
    int i;
    for (i = 0; i < blk_n; i++) if (blk_thread[i] == p) break;
    if (i == blk_n && blk_n < 256) { blk_thread[blk_n] = p; blk_count[blk_n] = 0; blk_n++; }
    if (i < 256) blk_count[i]++;
  }
  if (extra_cb) extra_cb(site, p, step);
}
uint64_t wl_blocks_of(const void *th) {
  for (int i = 0; i < blk_n; i++) if (blk_thread[i] == th) return blk_count[i];
  return 0;
}
void wl_set_probe_cb(mvsim_probe_cb_t cb) { extra_cb = cb; }

long wl_def_stack_extra;   /* bytes added to the default stack size of the next run (sizes that are not a multiple of 16) */
void wl_begin(mvsim_runcfg *cfg, long nworkers, long def_stack_kb, long queue_size, int parent_first) {
  cfg->queue_size = (int)queue_size;
  setenv("MYTH_CHILD_FIRST", parent_first ? "0" : "1", 1);
  blk_n = 0; wl_total_blocks = 0;
  mvsim_set_probe_cb(common_probe_cb);
  mvsim_begin_run(cfg);
  myth_globalattr_t ga;
  myth_globalattr_init(&ga);
  myth_globalattr_set_n_workers(&ga, (size_t)nworkers);
  myth_globalattr_set_stacksize(&ga, (size_t)(def_stack_kb ? def_stack_kb : 32) * 1024 + (size_t)wl_def_stack_extra);
  wl_def_stack_extra = 0;
  myth_globalattr_set_bind_workers(&ga, 0);
  myth_init_ex(&ga);
  MVH_CHECK(myth_get_num_workers() == nworkers, "C15-NWORKERS", "myth_get_num_workers()=%d, requested %ld", myth_get_num_workers(), nworkers);
}

void wl_end(mvsim_runstats *st, long expected_live_records) {
  mvsim_quiesce();
  long live_stacks = mvsim_ledger_allocated(MYTH_VK_STACK);
  long live_desc = mvsim_ledger_allocated(MYTH_VK_DESC);
  MVH_CHECK(live_stacks == 0, "C13-LEAK-STACK", "%ld stacks still allocated at quiescence although every thread finished", live_stacks);
  if (expected_live_records >= 0)
    MVH_CHECK(live_desc == expected_live_records, "C13-LEAK-RECORD", "%ld thread records still allocated at quiescence; expected %ld", live_desc, expected_live_records);
  myth_fini();
  MVH_CHECK(mvsim_n_workers_done() == mvsim_n_workers_spawned(), "C15-FINI", "after myth_fini %d of %d workers have stopped", mvsim_n_workers_done(), mvsim_n_workers_spawned());
  mvsim_end_run(st);
  mvsim_set_probe_cb(0);
  extra_cb = 0;
  mvsim_ledger_release_all();
}

void wl_gen_common(mvsim_rng *r, long *nworkers, long *queue_size, long *parent_first, long nthreads) {
  static const long nw[] = { 1, 1, 2, 2, 3, 4, 4, 8 };
  *nworkers = mvh_pick(r, nw, 8);
  static const long caps[] = { 0, 1, 3, 16, 256, 4096 };
  *queue_size = nthreads + 4 + mvh_pick(r, caps, 6);
  *parent_first = mvh_chance(r, 250);
}

void wl_maybe_yield(uint64_t h, int yield_pm) {
  if ((int)(h % 1000) < yield_pm) {
    switch ((h >> 12) % 4) {
      case 0: myth_yield(); break;
      case 1: myth_yield_ex(myth_yield_option_local_only); break;
      case 2: myth_yield_ex(myth_yield_option_steal_first); break;
      default: mvsim_user_point(); break;
    }
  } else mvsim_user_point();
}

/* Warm-up (build flavour "mem" only): the first simulated run of a process executes one-time lazy paths of the
   library (first-use initialisations), which are invisible at hook granularity but add memory-access schedule
   points.  One small throw-away run at process start takes them out of the first counted run, so that a run's
   events do not depend on its position in the batch and a replay file reproduces in a fresh process. */
static void warm_dtor(void *v) { (void)v; }
static myth_key_t warm_key;
static void *warm_child(void *a) { myth_yield(); if ((long)a == 3) { myth_setspecific(warm_key, a); myth_exit(a); } if ((long)a == 4) { for (;;) { myth_testcancel(); myth_yield(); } } return a; }
void mvh_warmup(void) {
  mvsim_runcfg cfg; mvsim_default_cfg(&cfg, 0x5eedULL);
  mvsim_runstats st; memset(&st, 0, sizeof st);
  wl_begin(&cfg, 8, 32, 64, 0);
  myth_thread_t t = myth_create(warm_child, (void *)1L); void *r = 0; myth_join(t, &r);
  myth_thread_attr_t a; myth_thread_attr_init(&a); myth_thread_attr_setstacksize(&a, 65536 + 1);
  myth_create_ex(&t, &a, warm_child, (void *)2L); myth_join(t, &r);
  myth_key_t k; if (myth_key_create(&k, 0) == 0) { myth_setspecific(k, &k); (void)myth_getspecific(k); myth_setspecific(k, 0); myth_key_delete(k); }
  if (myth_key_create(&warm_key, warm_dtor) == 0) {
    t = myth_create(warm_child, (void *)3L); myth_join(t, &r);
    t = myth_create(warm_child, (void *)4L); myth_yield(); myth_cancel(t); myth_join(t, &r);
    myth_key_delete(warm_key);
  }
  myth_mutex_t m; myth_mutex_init(&m, 0); myth_mutex_lock(&m); myth_mutex_unlock(&m); myth_mutex_destroy(&m);
  myth_cond_t c; myth_cond_init(&c, 0); myth_cond_signal(&c); myth_cond_destroy(&c);
  myth_barrier_t b; myth_barrier_init(&b, 0, 1); myth_barrier_wait(&b); myth_barrier_destroy(&b);
  myth_usleep(1);
  wl_end(&st, 1);
}
