#ifndef WL_COMMON_H_
#define WL_COMMON_H_
#include "mvh.h"
#ifdef __cplusplus
extern "C" {
#endif
void wl_begin(mvsim_runcfg *cfg, long nworkers, long def_stack_kb, long queue_size, int parent_first);
/* quiesce, ledger check, myth_fini, end of run.  expected_live_records < 0: do not check records */
void wl_end(mvsim_runstats *st, long expected_live_records);
void wl_gen_common(mvsim_rng *r, long *nworkers, long *queue_size, long *parent_first, long nthreads);
void wl_maybe_yield(uint64_t h, int yield_pm);
uint64_t wl_blocks_of(const void *th);     /* BLOCK probe events of a thread */
extern uint64_t wl_total_blocks;
void wl_set_probe_cb(mvsim_probe_cb_t cb);
extern long wl_def_stack_extra;
static inline uint64_t wl_mix(uint64_t a, uint64_t b) { uint64_t x = a ^ (b * 0x9e3779b97f4a7c15ULL); return mvsim_splitmix(&x); }
extern uint32_t mvh_run_flags;
#ifdef __cplusplus
}
#endif
#endif
