/* ptprog.c -- C16: determinate pthread programs behave the same on MassiveThreads as on the system
 * pthreads.  ONE interpreter written against the POSIX API only.  The binary is linked with the
 * library's @myth-ld.opts (--wrap=pthread_*), so the same code runs
 *   (a) under the simulator with the calls redirected to MassiveThreads (MYTH_WRAP_PTHREAD unset), and
 *   (b) in a fresh process with MYTH_WRAP_PTHREAD=0 (wrappers forward to the system library) to obtain
 *       the expected output of the determinate program  -- "--refplan p0,p1,...".
 */
#define _GNU_SOURCE
#include <stdio.h>
#include <stdlib.h>
#include <string.h>
#include <errno.h>
#include <stdarg.h>
#include <pthread.h>
#include <sched.h>
#include <unistd.h>
#include "mvh.h"
#include "myth/myth.h"

extern uint32_t mvh_run_flags;
const char *mvh_harness_name = "ptprog";
void mvsim_ledger_release_all(void);

enum { T_SEED, T_NWORKERS, T_NTHREADS, T_SHAPES, T_ROUNDS, T_QSIZE, T_NP };
static const char *const pnames[] = { "seed", "nworkers", "nthreads", "shapes", "rounds", "queue_size" };
static const long *P;
static int simulated;

static char logbuf[1 << 16]; static size_t loglen;
static void LOG(const char *fmt, ...) __attribute__((format(printf, 1, 2)));
static void LOG(const char *fmt, ...) {
  va_list ap; va_start(ap, fmt);
  int n = vsnprintf(logbuf + loglen, sizeof logbuf - loglen, fmt, ap);
  va_end(ap);
  if (n > 0 && loglen + (size_t)n < sizeof logbuf) loglen += (size_t)n;
}
static uint64_t mix(uint64_t a, uint64_t b) { uint64_t x = a ^ (b * 0x9e3779b97f4a7c15ULL); return mvsim_splitmix(&x); }
static void pt_yield(uint64_t h) {
  if (simulated) { if (h & 1) sched_yield(); else mvsim_user_point(); }
  else if ((h & 7) == 0) sched_yield();
}
/* every return code is part of the result */
static long rc_bad; static char rc_first[120];
#define RC(call) do { int rc_ = (call); if (rc_ != 0) { if (!rc_bad) snprintf(rc_first, sizeof rc_first, "%s returned %d", #call, rc_); rc_bad++; } } while (0)

/* ---- shape 1: spawn tree with join values, attributes, pthread_exit ---- */
#define MAXN 40
static struct tn { int id, parent, nch, ch[4]; int use_attr, detached, use_exit; size_t stacksize; pthread_t th; volatile int ran; long sum; } TN[MAXN];
static int ntn;
static pthread_mutex_t det_mx = PTHREAD_MUTEX_INITIALIZER; static pthread_cond_t det_cv = PTHREAD_COND_INITIALIZER; static int det_done;
static __attribute__((noinline)) void exit_nested(int d, void *v) { volatile char pad[40]; pad[0] = (char)d; if (d > 0) exit_nested(d - 1, v); else pthread_exit(v); pad[1] = 0; }
static void *tree_node(void *arg) {
  struct tn *n = arg;
  n->ran++;
  long sum = n->id;
  for (int k = 0; k < n->nch; k++) {
    struct tn *c = &TN[n->ch[k]];
    pthread_attr_t a;
    if (c->use_attr) {
      RC(pthread_attr_init(&a));
      if (c->stacksize) RC(pthread_attr_setstacksize(&a, c->stacksize));
      if (c->detached) RC(pthread_attr_setdetachstate(&a, PTHREAD_CREATE_DETACHED));
    }
    RC(pthread_create(&c->th, c->use_attr ? &a : 0, tree_node, c));
    if (c->use_attr) RC(pthread_attr_destroy(&a));
    pt_yield(mix(P[T_SEED], n->id * 10 + k));
  }
  for (int k = 0; k < n->nch; k++) {
    struct tn *c = &TN[n->ch[k]];
    if (c->detached) continue;
    void *r = 0;
    RC(pthread_join(c->th, &r));
    sum += (long)r;
  }
  n->sum = sum;
  if (n->detached) {
    RC(pthread_mutex_lock(&det_mx)); det_done++; RC(pthread_cond_signal(&det_cv)); RC(pthread_mutex_unlock(&det_mx));
    return 0;
  }
  if (n->use_exit) exit_nested(2, (void *)sum);
  return (void *)sum;
}
static void shape_tree(void) {
  int n = (int)P[T_NTHREADS]; if (n > MAXN - 1) n = MAXN - 1;
  ntn = n + 1; memset(TN, 0, sizeof TN); det_done = 0;
  int ndet = 0;
  for (int i = 1; i < ntn; i++) {
    uint64_t h = mix(P[T_SEED], 100 + i);
    int par = (int)(h % (uint64_t)i), tries = 0;
    while (TN[par].nch >= 4 && tries++ < i) par = (par + 1) % i;
    if (TN[par].nch >= 4) { ntn = i; break; }
    TN[i].id = i; TN[i].parent = par; TN[par].ch[TN[par].nch++] = i;
    TN[i].use_attr = (h >> 8) % 3 == 0;
    TN[i].use_exit = (h >> 12) % 3 == 0;
    if (TN[i].use_attr) { TN[i].detached = (h >> 16) % 4 == 0; static const size_t ss[] = { 0, 16384, 65536, 262144, 16392, 20000, 0, 70001 }; TN[i].stacksize = ss[(h >> 20) % 8];   /* also sizes that are no multiple of a page */ }
    if (TN[par].detached) TN[i].detached = 0;
  }
  /* a detached node must be a leaf of joinable work: its children are joined by itself, fine */
  for (int i = 1; i < ntn; i++) if (TN[i].detached) ndet++;
  tree_node(&TN[0]);
  RC(pthread_mutex_lock(&det_mx));
  while (det_done < ndet) RC(pthread_cond_wait(&det_cv, &det_mx));
  RC(pthread_mutex_unlock(&det_mx));
  long tot = 0; int ran = 0;
  for (int i = 0; i < ntn; i++) { ran += TN[i].ran; if (!TN[i].detached) tot += 0; }
  LOG("tree nodes=%d ran=%d rootsum=%ld detached=%d\n", ntn - 1, ran - 1, TN[0].sum, ndet);
  for (int i = 1; i < ntn && i < 12; i++) LOG(" n%d sum=%ld\n", i, TN[i].sum);
}

/* ---- shape 2: statically initialised mutexes first used by several threads at once; spin lock; once; keys ---- */
static pthread_mutex_t smx[3]; static long scount[3];
static pthread_spinlock_t spin; static long spincount;
static pthread_once_t once_ctl; static int once_runs; static volatile int once_done; static int once_early; static int key_stale;
static pthread_key_t keys[3]; static long dtor_sum[3]; static pthread_mutex_t dmx = PTHREAD_MUTEX_INITIALIZER;
static void pt_yield(uint64_t h);
/* the init routine takes its time (yields in the middle): every caller of pthread_once, not only the one
   that runs it, may return only after it has completed */
static void once_fn(void) { once_runs++; pt_yield(1); sched_yield(); pt_yield(5); once_done = 1; }
static void dtor0(void *v) { pthread_mutex_lock(&dmx); dtor_sum[0] += (long)v; pthread_mutex_unlock(&dmx); }
static void dtor1(void *v) { pthread_mutex_lock(&dmx); dtor_sum[1] += (long)v; pthread_mutex_unlock(&dmx); }
static void *counter_thread(void *arg) {
  long t = (long)arg;
  RC(pthread_once(&once_ctl, once_fn));
  if (!once_done) __sync_fetch_and_add(&once_early, 1);
  /* a new thread reads NULL under every key -- also after it stored under ANOTHER key (lazy-init idiom), and also
     when it runs on a recycled thread record whose previous user stored values under these keys */
  RC(pthread_setspecific(keys[0], (void *)(t + 1)));
  if (pthread_getspecific(keys[2]) != 0 || ((t & 1) == 0 && pthread_getspecific(keys[1]) != 0)) __sync_fetch_and_add(&key_stale, 1);
  for (long r = 0; r < P[T_ROUNDS]; r++) {
    uint64_t h = mix(P[T_SEED], 500 + t * 64 + r);
    int m = (int)(h % 3);
    if ((h >> 8) & 1) { RC(pthread_mutex_lock(&smx[m])); }
    else { int rc; while ((rc = pthread_mutex_trylock(&smx[m])) == EBUSY) sched_yield(); RC(rc); }   /* must really yield: the holder may share our worker */
    long v = scount[m]; pt_yield(h >> 16); scount[m] = v + 1;
    RC(pthread_mutex_unlock(&smx[m]));
    if ((h >> 20) & 1) { RC(pthread_spin_lock(&spin)); }
    else { int rc; while ((rc = pthread_spin_trylock(&spin)) == EBUSY) sched_yield(); RC(rc); }
    spincount++; RC(pthread_spin_unlock(&spin));
  }
  RC(pthread_setspecific(keys[0], (void *)(t + 1)));
  if (t & 1) RC(pthread_setspecific(keys[1], (void *)(100 + t)));
  RC(pthread_setspecific(keys[2], (void *)7L));        /* key without destructor */
  if (pthread_getspecific(keys[0]) != (void *)(t + 1)) rc_bad++;
  pt_yield(t);
  if (pthread_getspecific(keys[2]) != (void *)7L) rc_bad++;
  return (void *)(t * 3);
}
static void shape_counters(void) {
  int n = (int)P[T_NTHREADS]; if (n > 32) n = 32; if (n < 1) n = 1;
  static const pthread_mutex_t init = PTHREAD_MUTEX_INITIALIZER;
  for (int m = 0; m < 3; m++) { smx[m] = init; scount[m] = 0; }
  static const pthread_once_t oinit = PTHREAD_ONCE_INIT; once_ctl = oinit; once_runs = 0; once_done = 0; once_early = 0; key_stale = 0;
  spincount = 0; memset(dtor_sum, 0, sizeof dtor_sum);
  RC(pthread_spin_init(&spin, PTHREAD_PROCESS_PRIVATE));
  RC(pthread_key_create(&keys[0], dtor0)); RC(pthread_key_create(&keys[1], dtor1)); RC(pthread_key_create(&keys[2], 0));
  pthread_t th[32]; long jsum = 0;
  /* two waves: the threads of the second wave run on thread records (and key storage) recycled from the first */
  for (int wave = 0; wave < 2; wave++) {
    for (long i = 0; i < n; i++) RC(pthread_create(&th[i], 0, counter_thread, (void *)i));
    for (long i = 0; i < n; i++) { void *r = 0; RC(pthread_join(th[i], &r)); jsum += (long)r; }
  }
  LOG("counters %ld %ld %ld total=%ld spin=%ld once=%d once_early=%d stale_key_reads=%d joinsum=%ld dtor=%ld,%ld,%ld\n", scount[0], scount[1], scount[2],
      scount[0] + scount[1] + scount[2], spincount, once_runs, once_early, key_stale, jsum, dtor_sum[0], dtor_sum[1], dtor_sum[2]);
  for (int k = 0; k < 3; k++) RC(pthread_key_delete(keys[k]));
  RC(pthread_spin_destroy(&spin));
  for (int m = 0; m < 3; m++) RC(pthread_mutex_destroy(&smx[m]));
}

/* ---- shape 3: condition-variable hand-off and barrier phases ---- */
static pthread_mutex_t hmx; static pthread_cond_t hcv; static int hturn; static long hcount;
static pthread_barrier_t bar; static int bserial[32]; static int barrived[32];
static int NB;
static void *pingpong(void *arg) {
  long me = (long)arg;
  for (long r = 0; r < P[T_ROUNDS]; r++) {
    RC(pthread_mutex_lock(&hmx));
    while (hturn != me) RC(pthread_cond_wait(&hcv, &hmx));
    hcount += me + 1; hturn = 1 - (int)me;
    if (r & 1) RC(pthread_cond_signal(&hcv)); else RC(pthread_cond_broadcast(&hcv));
    RC(pthread_mutex_unlock(&hmx));
  }
  return 0;
}
static void *barrier_thread(void *arg) {
  long t = (long)arg;
  long ok = 0;
  for (long r = 0; r < P[T_ROUNDS] && r < 32; r++) {
    pt_yield(mix(P[T_SEED], 900 + t * 40 + r));
    __sync_fetch_and_add(&barrived[r], 1);
    int rc = pthread_barrier_wait(&bar);
    if (rc == PTHREAD_BARRIER_SERIAL_THREAD) __sync_fetch_and_add(&bserial[r], 1); else RC(rc);
    if (barrived[r] == NB) ok++;
  }
  return (void *)ok;
}
static void shape_sync(void) {
  RC(pthread_mutex_init(&hmx, 0)); RC(pthread_cond_init(&hcv, 0)); hturn = 0; hcount = 0;
  pthread_t a, b;
  RC(pthread_create(&a, 0, pingpong, (void *)0L)); RC(pthread_create(&b, 0, pingpong, (void *)1L));
  RC(pthread_join(a, 0)); RC(pthread_join(b, 0));
  LOG("pingpong count=%ld turn=%d\n", hcount, hturn);
  RC(pthread_cond_destroy(&hcv)); RC(pthread_mutex_destroy(&hmx));
  NB = (int)(P[T_NTHREADS] % 7) + 1;
  memset(bserial, 0, sizeof bserial); memset(barrived, 0, sizeof barrived);
  RC(pthread_barrier_init(&bar, 0, (unsigned)NB));
  pthread_t th[8]; long oks = 0;
  for (long i = 0; i < NB; i++) RC(pthread_create(&th[i], 0, barrier_thread, (void *)i));
  for (long i = 0; i < NB; i++) { void *r = 0; RC(pthread_join(th[i], &r)); oks += (long)r; }
  int serial_ok = 1; for (long r = 0; r < P[T_ROUNDS] && r < 32; r++) if (bserial[r] != 1) serial_ok = 0;
  LOG("barrier parties=%d rounds=%ld all-arrived=%ld one-serial-per-round=%d\n", NB, P[T_ROUNDS] < 32 ? P[T_ROUNDS] : 32, oks, serial_ok);
  RC(pthread_barrier_destroy(&bar));
}
/* ---- shape 4: self/equal, detach after create, tiny sleeps ---- */
static pthread_t self_ids[16]; static volatile int self_ok[16];
static void *self_thread(void *arg) {
  long t = (long)arg;
  pthread_t me = pthread_self();
  self_ids[t] = me;
  self_ok[t] = pthread_equal(me, pthread_self()) != 0;
  if (t % 3 == 0) usleep(1);
  if (t % 3 == 1) { struct timespec ts = { 0, 1000 }; nanosleep(&ts, 0); }
  RC(pthread_mutex_lock(&det_mx)); det_done++; RC(pthread_cond_signal(&det_cv)); RC(pthread_mutex_unlock(&det_mx));
  return (void *)t;
}
/* create/exit churn on an explicit stack size that need not be a multiple of a page: later waves run on recycled stacks */
static void *churn_thread(void *arg) {
  volatile unsigned char pad[1024]; long t = (long)arg, s = 0;
  for (int i = 0; i < 1024; i += 64) pad[i] = (unsigned char)(t + i);
  sched_yield();
  for (int i = 0; i < 1024; i += 64) s += pad[i];
  return (void *)(s + t);
}
static void churn(void) {
  static const size_t ss[] = { 16392, 20000, 16384, 30000, 70001, 65536 + 8 };
  size_t sz = ss[mix(P[T_SEED], 555) % 6]; int k = 1 + (int)(mix(P[T_SEED], 556) % 4); long total = 0;
  pthread_attr_t a; RC(pthread_attr_init(&a)); RC(pthread_attr_setstacksize(&a, sz));
  size_t back = 0; RC(pthread_attr_getstacksize(&a, &back));
  for (long w = 0; w < P[T_ROUNDS]; w++) {
    pthread_t th[4];
    for (long i = 0; i < k; i++) RC(pthread_create(&th[i], &a, churn_thread, (void *)(w * 4 + i)));
    for (long i = 0; i < k; i++) { void *r = 0; RC(pthread_join(th[i], &r)); total += (long)r; }
  }
  RC(pthread_attr_destroy(&a));
  LOG("churn stacksize=%zu readback=%zu waves=%ld k=%d total=%ld\n", sz, back, P[T_ROUNDS], k, total);
}
static void shape_misc(void) {
  int n = (int)(P[T_NTHREADS] % 12) + 1;
  det_done = 0;
  pthread_t th[16]; int joined = 0, eq = 0;
  for (long i = 0; i < n; i++) { RC(pthread_create(&th[i], 0, self_thread, (void *)i)); if (i & 1) RC(pthread_detach(th[i])); }
  for (long i = 0; i < n; i++) if (!(i & 1)) { void *r = 0; RC(pthread_join(th[i], &r)); if ((long)r == i) joined++; if (pthread_equal(th[i], self_ids[i])) eq++; }
  RC(pthread_mutex_lock(&det_mx));
  while (det_done < n) RC(pthread_cond_wait(&det_cv, &det_mx));
  RC(pthread_mutex_unlock(&det_mx));
  int ok = 0; for (int i = 0; i < n; i++) ok += self_ok[i];
  LOG("misc n=%d joined=%d self-equal=%d id-equal=%d main-equal=%d\n", n, joined, ok, eq, pthread_equal(pthread_self(), pthread_self()) != 0);
  churn();
}

static void interpret(void) {
  loglen = 0; logbuf[0] = 0; rc_bad = 0; rc_first[0] = 0;
  /* every program starts from freshly (statically) initialised objects: otherwise only the first program of a
     process would exercise the first-use conversion of PTHREAD_*_INITIALIZER objects, and a run's events would
     depend on the runs before it */
  { static const pthread_mutex_t mi = PTHREAD_MUTEX_INITIALIZER; static const pthread_cond_t ci = PTHREAD_COND_INITIALIZER;
    det_mx = mi; dmx = mi; det_cv = ci; }
  long shapes = P[T_SHAPES];
  if (shapes & 1) shape_tree();
  if (shapes & 2) shape_counters();
  if (shapes & 4) shape_sync();
  if (shapes & 8) shape_misc();
  LOG("nonzero-return-codes=%ld %s\n", rc_bad, rc_first);
}

/* ---- reference run in a fresh process on the system pthreads ---- */
int ptprog_refplan(const char *csv) {
  static long p[T_NP]; int i = 0;
  char *s = strdup(csv), *tok = strtok(s, ",");
  while (tok && i < T_NP) { p[i++] = atol(tok); tok = strtok(0, ","); }
  P = p; simulated = 0;
  interpret();
  fputs(logbuf, stdout);
  return 0;
}
static int get_reference(char *out, size_t n) {
  char cmd[600]; int o = snprintf(cmd, sizeof cmd, "MYTH_WRAP_PTHREAD=0 /proc/%d/exe --refplan ", (int)getpid());
  for (int i = 0; i < T_NP; i++) o += snprintf(cmd + o, sizeof cmd - (size_t)o, "%s%ld", i ? "," : "", P[i]);
  FILE *f = popen(cmd, "r");
  if (!f) return -1;
  size_t got = fread(out, 1, n - 1, f); out[got] = 0;
  int st = pclose(f);
  return st == 0 ? 0 : -1;
}

static void gen(mvsim_rng *r, long *p, int tier) {
  p[T_SEED] = (long)(mvsim_rng_next(r) >> 24);
  static const long nw[] = { 1, 2, 2, 3, 4, 8 };
  p[T_NWORKERS] = mvh_pick(r, nw, 6);
  p[T_NTHREADS] = mvh_range(r, 1, tier ? 32 : 16);
  p[T_SHAPES] = 1 + (long)mvsim_rng_below(r, 15);
  p[T_ROUNDS] = mvh_range(r, 1, tier ? 24 : 10);
  p[T_QSIZE] = 64 + (mvh_chance(r, 500) ? 0 : 1000);
}
static void describe(const long *p, FILE *f) {
  fprintf(f, "ptprog workers=%ld threads=%ld rounds=%ld shapes:%s%s%s%s", p[T_NWORKERS], p[T_NTHREADS], p[T_ROUNDS],
          p[T_SHAPES] & 1 ? " spawn-tree(attr,detach,exit)" : "", p[T_SHAPES] & 2 ? " static-mutex-counters+spin+once+keys" : "",
          p[T_SHAPES] & 4 ? " cond-handoff+barrier" : "", p[T_SHAPES] & 8 ? " self/equal/detach/sleep" : "");
}
static long n_ref_runs;
static void run(const long *p, mvsim_runcfg *cfg, mvsim_runstats *st) {
  P = p;
  static char expect[1 << 16];
  if (get_reference(expect, sizeof expect) != 0) mvsim_violation("INFRA", "reference run on the system pthreads failed");
  n_ref_runs++;
  simulated = 1;
  cfg->queue_size = (int)p[T_QSIZE];
  cfg->clk_read_ns = 500; cfg->clk_jump_permille = 0;
  cfg->budget1 += 4000 * (uint64_t)(p[T_NTHREADS] * p[T_ROUNDS] + 10); cfg->budget2 += 40000 * (uint64_t)(p[T_NTHREADS] * p[T_ROUNDS] + 10);
  char nwbuf[16]; snprintf(nwbuf, sizeof nwbuf, "%ld", p[T_NWORKERS]);
  setenv("MYTH_NUM_WORKERS", nwbuf, 1); setenv("MYTH_BIND_WORKERS", "0", 1);
  myth_globalattr_set_n_workers(0, (size_t)p[T_NWORKERS]); myth_globalattr_set_bind_workers(0, 0); myth_globalattr_set_stacksize(0, 65536);
  mvsim_begin_run(cfg);
  interpret();            /* first pthread call initialises MassiveThreads implicitly */
  mvsim_quiesce();
  myth_fini();
  mvsim_end_run(st);
  mvsim_ledger_release_all();
  if (st->preemptions > 0) mvh_run_flags |= 1;
  if (strcmp(expect, logbuf) != 0) {
    /* make sure the reference is stable before blaming the library */
    static char e2[1 << 16], e3[1 << 16];
    if (get_reference(e2, sizeof e2) != 0 || get_reference(e3, sizeof e3) != 0 || strcmp(expect, e2) || strcmp(expect, e3))
      mvsim_violation("INFRA", "the reference program is not determinate on the system pthreads");
    /* first differing line */
    const char *a = expect, *b = logbuf; int line = 1;
    while (*a && *b) { const char *ea = strchr(a, '\n'), *eb = strchr(b, '\n'); size_t la = ea ? (size_t)(ea - a) : strlen(a), lb = eb ? (size_t)(eb - b) : strlen(b);
      if (la != lb || strncmp(a, b, la)) break; a += la + (ea ? 1 : 0); b += lb + (eb ? 1 : 0); line++; }
    char la[200], lb[200]; snprintf(la, sizeof la, "%.*s", (int)strcspn(a, "\n"), a); snprintf(lb, sizeof lb, "%.*s", (int)strcspn(b, "\n"), b);
    mvsim_violation("C16-DIFF", "output line %d differs: system pthreads '%s' vs MassiveThreads (ld wrapping) '%s'", line, la, lb);
  }
}
static void stats(FILE *f) { fprintf(f, "\"x_reference_runs_on_system_pthreads\":%ld", n_ref_runs); }
const mvh_class wl_pt = { "pt", T_NP, pnames, gen, run, stats, describe };
const mvh_class *const mvh_classes[] = { &wl_pt };
const int mvh_n_classes = 1;
