#!/bin/bash
# soak.sh [seed] [budget_s] -- run every registered check (thorough tier) once with the given seed on the unchanged tree;
# meant for `vp run --with-repo -- bash driver/soak.sh <seed>` (the /repo snapshot is in $VP_RUN_REPO).
seed=${1:-1}; budget=${2:-240}
[ -n "$VP_RUN_REPO" ] && export VERIF_REPO=$VP_RUN_REPO
cd "$(dirname "$0")/.."
for p in $(python3 -c "
import json
print(' '.join(c['property_id'] for c in json.load(open('MANIFEST.json'))['checks']))"); do
  VERIF_SEED=$seed VERIF_BUDGET_S=$budget python3 driver/check.py --property $p --tier thorough > soak-$p.out 2>&1
  echo "$p rc=$? $(grep -E 'VIOLATION|KNOWN-FINDING|runs,|INFRA' soak-$p.out | tr '\n' ' ' | cut -c1-400)"
done
