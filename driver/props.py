"""props.py -- which simulated workloads decide which property (see DESIGN.md section 5)."""
import os, re

REPO = os.environ.get("VERIF_REPO", "/repo")

def _site_names():
    names = {}
    try:
        txt = open(os.path.join(REPO, "src", "myth_verif.h")).read()
        body = txt[txt.index("MYTH_VS_NONE = 0"):txt.index("MYTH_VS_N_SITES")]
        body = re.sub(r"/\*.*?\*/", "", body, flags=re.S)
        i = 0
        for tok in body.split(","):
            tok = tok.strip()
            if not tok:
                continue
            name = tok.split("=")[0].strip()
            names[i] = name.replace("MYTH_VS_", "").replace("MYTH_VP_", "P_").replace("MYTH_VB_", "BUG_").lower()
            i += 1
        names[i + 1] = "fn_enter"   # flavour fn: function-granularity schedule points
        names[i + 2] = "fn_exit"
        names[i + 3] = "mem_access"   # flavour mem: memory-access-granularity schedule points
    except Exception:
        pass
    names[0] = "user_point"
    return names

SITE_NAMES = _site_names()

FJ_SHRINK = {"nworkers": 1, "nthreads": 1, "fanout": 1, "depth": 1, "attr_pm": 0, "stack_mode": 0, "nullid_pm": 0,
             "exit_pm": 0, "yield_pm": 0, "join_order": 0, "poison_attr": 0, "stealfn": 0, "canary": 0, "bufwords": 1,
             "parent_first": 0, "reap_mask": 1, "def_stack_extra": 0}

def fj(sets=None, flavour="O2", weight=1.0, tiers=("quick", "thorough")):
    return {"bin": "mvh", "cls": "forkjoin", "sets": sets or {}, "flavour": flavour, "weight": weight, "tiers": tiers,
            "shrink": FJ_SHRINK}

SYNC_SHRINK = {"mode": 0, "span": 1, "nused": 1, "nops": 1, "dtor_pm": 1000, "set_pm": 1000, "churners": 0, "null_pm": 0, "exitmode": 0, "nworkers": 1, "yield_pm": 0, "parent_first": 0, "nthreads": 1, "nacq": 1, "nmutex": 1, "try_pm": 0, "timed_pm": 0,
               "cs_points": 0, "helper_pm": 0, "spinners": 0, "np": 1, "nc": 1, "cap": 1, "k": 1, "nwaiters": 1, "rounds": 1, "n": 1,
               "racer": -1, "ndeccers": 1, "late": 0, "items": 1, "pairs": 1, "dispatch": 0, "readers": 0, "ncallers": 1, "nctl": 1, "signal_outside": 0, "peekers": 0, "ncycles": 1, "maxw": 1, "race": 0, "ncalls": 1, "nsib": 0, "hold": 0, "various": 0, "with_results": 0, "with_ids": 0, "with_attrs": 0, "nested": 0, "overlap": 0, "ntasks": 1, "len": 0, "step": 1, "form": 0, "grain": 1, "first": 0, "arrwords": 32, "def_stack_extra": 0}

def sy(cls, sets=None, flavour="O2", weight=1.0, tiers=("quick", "thorough")):
    return {"bin": "mvh", "cls": cls, "sets": sets or {}, "flavour": flavour, "weight": weight, "tiers": tiers, "shrink": SYNC_SHRINK}

def sync_jobs(cls, extra=()):
    return [sy(cls, weight=5), sy(cls, flavour="O0", weight=1), sy(cls, flavour="asan", weight=1), sy(cls, flavour="fn", weight=2), sy(cls, flavour="mem", weight=2)] + list(extra)

BLOCK_PROBES = ["p_block", "wake_one_spin", "wake_many_spin", "p_steal_hit"]
BLOCK_ONE = ["p_block", "wake_one_spin", "p_steal_hit"]      # primitives that wake one sleeper at a time
BLOCK_MANY = ["p_block", "wake_many_spin", "p_steal_hit"]    # primitives that wake a counted set of sleepers

PROPS = {
    "C01": {
        "jobs": [fj({"reap_mask": 7, "stealfn": 0}, weight=4), fj({"reap_mask": 63, "stealfn": 0}, weight=2), fj({"reap_mask": 7, "stealfn": 0}, flavour="O0", weight=2),
                 fj({"reap_mask": 1, "stealfn": 0}, flavour="asan", weight=1), fj({"reap_mask": 7, "stealfn": 0}, flavour="fn", weight=2), fj({"reap_mask": 7, "stealfn": 0}, flavour="mem", weight=2)],
        "relevant_probes": ["p_join_fast", "p_join_next", "p_join_sched", "p_finish_waiter", "p_finish_next", "p_finish_sched",
                            "p_entry_child_first", "p_entry_parent_first", "p_steal_hit"],
        "assumptions": ["generated fork-join programs are determinate: one joiner per thread, values fixed by the plan"],
    },
    "C02": {
        "jobs": [{"bin": "wsq_tso", "cls": "wsq", "sets": {}, "flavour": "O2", "weight": 5, "chunk": 20000,
                  "shrink": {"nthieves": 1, "cap": 4, "prefill": 0, "nops": 1, "sb_depth": 0, "start_pos": 0, "passers": 0}},
                 {"bin": "wsq_tso", "cls": "wsq", "sets": {"sb_depth": 0}, "flavour": "O2", "weight": 1, "chunk": 20000},
                 fj({"stealfn": 1, "reap_mask": 1}, weight=2), fj({"stealfn": 2, "reap_mask": 1}, weight=2),
                 fj({"stealfn": 3, "reap_mask": 1}, weight=2), fj({"stealfn": 4, "reap_mask": 1}, weight=2), fj({"stealfn": 0, "yield_pm": 1000, "reap_mask": 3}, weight=2),
                 fj({"reap_mask": 1}, flavour="asan", weight=1), fj({"reap_mask": 1}, flavour="fn", weight=2), fj({"reap_mask": 1}, flavour="mem", weight=2)],
        "relevant_probes": ["p_pop_slow", "p_pop_reset", "p_take_rollback", "p_recentre_down", "p_recentre_up", "p_steal_hit"],
        "assumptions": ["whole-library part only explores sequentially consistent interleavings; x86-TSO is covered by the wsq_tso unit harness",
                        "wsq_tso: the spin lock (CAS + full fence; unlock = full fence + plain store) and the fences (xchg = full fence, wbarrier = compiler barrier) are modelled; the deque algorithm text is the real src/myth_wsqueue_func.h"],
        "components": {"real": "wsq_tso: the unmodified text of src/myth_wsqueue_func.h (push/pop/take/peek/put/trypass, re-centring); whole-library jobs: all of /repo/src",
                       "stubbed": "wsq_tso: spin lock, fences, memory (store buffers) and the scheduler; whole-library jobs: worker OS threads (coroutines), start-up barrier, RNG, clock"},
    },
    "C12": {
        "jobs": [fj({"stack_mode": 1, "canary": 1, "poison": 1, "attr_pm": 1000}, weight=4), fj({"canary": 1, "poison": 1}, weight=2),
                 fj({"stack_mode": 2, "canary": 1, "poison": 1, "attr_pm": 500}, weight=1, tiers=("thorough",)),
                 fj({"stack_mode": 1, "canary": 1, "poison": 1}, flavour="asan", weight=1), fj({"canary": 1, "poison": 1}, flavour="fn", weight=2), fj({"canary": 1, "poison": 1}, flavour="mem", weight=2)],
        "relevant_probes": ["p_free_ready2", "p_finish_waiter", "p_finish_next", "p_finish_sched", "p_steal_hit"],
    },
    "C13": {
        "jobs": [fj({"reap_mask": 63}, weight=4), fj({"reap_mask": 62}, weight=2), fj({"nworkers": 1, "reap_mask": 63}, weight=1),
                 fj({"reap_mask": 63}, flavour="asan", weight=1), fj({"reap_mask": 63}, flavour="fn", weight=2), fj({"reap_mask": 63}, flavour="mem", weight=2)],
        "relevant_probes": ["p_free_ready2", "p_join_fast", "p_join_next", "p_join_sched"],
    },
    "C04": {"jobs": sync_jobs("mutex", [sy("mutex", {"nworkers": 1, "helper_pm": 500}, weight=1)]), "relevant_probes": BLOCK_ONE + ["mutex_cas"]},
    "C05": {"jobs": sync_jobs("cond"), "relevant_probes": BLOCK_ONE},
    "C06": {"jobs": sync_jobs("barrier"), "relevant_probes": BLOCK_MANY + ["barrier_reset", "sstack_cas"]},
    "C07": {"jobs": sync_jobs("jc"), "relevant_probes": BLOCK_MANY + ["jc_cas"]},
    "C08": {"jobs": sync_jobs("uncond"), "relevant_probes": ["p_block", "uncond_spin", "uncond_wr"]},
    "C09": {"jobs": sync_jobs("felock"), "relevant_probes": BLOCK_ONE + ["felock_status"]},
    "C14": {"jobs": sync_jobs("once"), "relevant_probes": ["once_cas", "once_spin", "once_done_wr"]},
    "C10": {"jobs": [sy("tls", flavour="asan", weight=4), sy("tls", weight=3), sy("tls", {"mode": 2}, weight=2), sy("tls", {"mode": 1}, weight=3), sy("tls", flavour="O0", weight=1), sy("tls", flavour="fn", weight=2), sy("tls", flavour="mem", weight=2)],
            "relevant_probes": ["key_cas", "key_rd", "p_steal_hit"],
            "rule": "each evaluation is one simulated execution of a seeded key-usage plan (sequential create/delete/set/get history over all 1024 indices, threads with private dictionaries migrating between workers, or concurrent create/delete); non-trivial = a cross-worker preemption happened and (a thread migrated | key CASes raced | sequential history); distinct = distinct event-sequence signatures. Input coverage (key indices that held a value) is reported separately as x_key_indices_that_held_a_value_distinct_count."},
    "C11": {"jobs": [sy("dtor", flavour="asan", weight=4), sy("dtor", weight=3), sy("dtor", flavour="O0", weight=1), sy("dtor", flavour="fn", weight=2), sy("dtor", flavour="mem", weight=2)],
            "relevant_probes": ["p_finish_waiter", "p_finish_next", "p_finish_sched"],
            "rule": "each evaluation is one simulated execution in which threads store values under a seeded subset of keys spread over the index range (always including the highest created index, with deleted keys in between so that earlier tree branches are empty) and terminate by return / myth_exit / cancellation; non-trivial = at least one cross-worker preemption; distinct = distinct event-sequence signatures. The decisive dimension is the key subset (input), reported as x_key_indices_that_held_a_value_distinct_count."},
    "C15": {"jobs": [sy("initfini", weight=6), sy("initfini", flavour="O0", weight=1), sy("initfini", flavour="asan", weight=1), sy("initfini", flavour="fn", weight=2), sy("initfini", flavour="mem", weight=2),
                     {"bin": "mvh", "cls": "envstrings", "py": "envcheck", "weight": 1, "flavour": "O2"}],
            "relevant_probes": ["p_main_migrate_back", "init_cas", "init_spin", "exit_flag_wr"],
            "rule": "simulated part: each evaluation is one seeded init/fini history (1..8 cycles, 1..64 workers requested through attribute object / environment / implicit first use, or 2-3 native contexts racing the first use) under a seeded schedule; non-trivial = a cross-worker preemption happened AND (myth_fini had to migrate the main thread back to worker 0 OR several contexts raced myth_init); distinct = distinct event signatures. Input part (not simulation): x_env_cases fresh processes with seeded malformed configuration strings, counted in evaluations but never in distinct_nontrivial.",
            "components": {"real": "all of /repo/src; the environment-string part runs the real worker pthreads (simulator inactive)", "stubbed": "simulated part: worker OS threads (coroutines), start-up barrier, RNG"}},
    "C20": {"jobs": [sy("timed", weight=5), sy("timed", {"nworkers": 1, "nsib": 2, "mode": 0}, weight=2), sy("timed", flavour="O0", weight=1), sy("timed", flavour="asan", weight=1), sy("timed", flavour="fn", weight=2), sy("timed", flavour="mem", weight=2)],
            "relevant_probes": ["mutex_cas", "p_free_ready2"],
            "rule": "each evaluation is one simulated execution of 1..8 sleeps / timed locks / timed joins against the virtual clock (coarse: zero increments; forward jumps), durations from 0 to seconds with boundary nanosecond fields, past/present/future deadlines; non-trivial = a cross-worker preemption happened and the library read the clock at least once; distinct = distinct event signatures"},
    "C17": {"jobs": [sy("bulk", weight=3), sy("parfor", weight=2), sy("taskgroup", weight=2), sy("bulk", flavour="asan", weight=1),
                     sy("parfor", flavour="asan", weight=1), sy("taskgroup", flavour="O0", weight=1), sy("bulk", flavour="fn", weight=2), sy("bulk", flavour="mem", weight=2), sy("taskgroup", flavour="fn", weight=2), sy("taskgroup", flavour="mem", weight=2)],
            "relevant_probes": ["p_steal_hit", "p_join_next", "p_join_sched", "p_finish_waiter"],
            "rule": "each evaluation is one simulated execution of a bulk helper call (n in {0,1,2,3,5,8,13,100,1000}, seeded stride/NULL-array/attribute combinations, guard bytes around every slot), a task_group history (1..40 run() calls, nested groups, reuse after wait) or a parallel_for over a seeded (first,len,step,grain) incl. empty and reversed ranges; non-trivial = a cross-worker preemption happened and (a steal or a blocking join occurred | the range had <= 1 element); distinct = distinct event signatures"},
    "C03": {"jobs": [sy("regs", weight=4), sy("regs", flavour="O0", weight=3), sy("regs", flavour="asan", weight=1), sy("regs", flavour="fn", weight=2), sy("regs", flavour="mem", weight=2)],
            "relevant_probes": ["p_steal_hit", "p_block", "p_entry_child_first", "p_entry_parent_first", "p_finish_waiter", "p_finish_next", "p_finish_sched"],
            "rule": "each evaluation is one simulated execution of 2..12 probe threads that run 3..40 switching operations each (5 yield flavours, child-first and attribute creation, blocking and non-blocking join, contended mutex, usleep, barrier, cond-based barrier, uncond hand-off) through an assembly stub that loads patterns into rbx, rbp, r12-r15 and a 256 B..4 KiB stack array and compares afterwards; every simulator hook additionally asserts a 16-byte aligned frame; non-trivial = a cross-worker preemption happened and at least one probe operation resumed on another worker; distinct = distinct event signatures"},
    "C18": {"engine": "drsim",
            "jobs": [{"bin": "drsim", "cls": "dr", "sets": {}, "flavour": "O2", "weight": 6, "chunk": 300, "shrink": {"ntasks": 1, "nworkers": 1, "policy": 0, "zero_pm": 0, "lenclass": 0, "nfiles": 1, "nsettings": 2, "wide": 0}},
                     {"bin": "drsim", "cls": "dr", "sets": {}, "flavour": "asan", "weight": 2, "chunk": 100}],
            "rule": "each evaluation is one generated task-parallel program (1..400 tasks; task ::= section* end, section ::= (section|create)* wait, 'other' intervals anywhere; interval lengths 0..10^6 incl. zero-length) executed by a virtual greedy work-stealing scheduler (1..8 virtual workers, work-first or help-first, seeded steals) and RECORDED 2..6 times with identical virtual timing under different contraction options; non-trivial = at least one task or continuation migrated between virtual workers; distinct = distinct signatures of (work, critical path, materialised node count) over the recordings",
            "components": {"real": "all of /repo/src/profiler: dag_recorder_inl.h (instrumentation, accumulation, contraction), dag_recorder.c, dr_dump.c, read_dag.c, gen_stat.c, gen_text.c, chronological.c", "stubbed": "the tasking runtime (virtual work-stealing scheduler with a discrete-event virtual clock); dr_get_tsc returns the acting virtual worker's time"},
            "assumptions": ["the recorder is driven through its public dr_*__ entry points with explicit worker ids (worker_specific_state_array=1)", "internal dr_check assertions are left at their default level (off)"]},
    "C19": {"engine": "drsim",
            "jobs": [{"bin": "drsim", "cls": "dr", "sets": {}, "flavour": "O2", "weight": 6, "chunk": 300, "shrink": {"ntasks": 1, "nworkers": 1, "policy": 0, "zero_pm": 0, "lenclass": 0, "nfiles": 1, "nsettings": 2, "wide": 0}},
                     {"bin": "drsim", "cls": "dr", "sets": {"nfiles": 50}, "flavour": "O2", "weight": 1, "chunk": 300},
                     {"bin": "drsim", "cls": "dr", "sets": {}, "flavour": "asan", "weight": 2, "chunk": 100}],
            "rule": "same executions as C18: every recording is dumped (dr_dump), read back (dr_read_dag), validated structurally, replayed chronologically, re-dumped (byte-identical apart from two in-memory pointers in the string-table header), and shrunk with dr_copy_pi_dag under a seeded node target; non-trivial / distinct as for C18",
            "components": {"real": "all of /repo/src/profiler (dump, read, text conversion, shrinking copy, chronological traversal)", "stubbed": "the tasking runtime"},
            "assumptions": ["no I/O faults are injected: the property is silent about failing writes", "the chronological replay uses the library's own traversal with an independent counting callback; the structural validator is independent code"]},
    "C16": {"engine": "mvsim",
            "jobs": [{"bin": "ptprog", "cls": "pt", "sets": {}, "flavour": "O2", "weight": 6, "chunk": 200,
                      "shrink": {"nworkers": 1, "nthreads": 1, "rounds": 1, "shapes": 1}},
                     {"bin": "ptprog", "cls": "pt", "sets": {}, "flavour": "O0", "weight": 2, "chunk": 200},
                     {"bin": "ptprog", "cls": "pt", "sets": {}, "flavour": "fn", "weight": 2, "chunk": 200},
                     {"bin": "ptprog", "cls": "pt", "sets": {}, "flavour": "mem", "weight": 2, "chunk": 200}],
            "relevant_probes": ["magic_cas", "magic_wr", "p_block", "p_steal_hit"],
            "rule": "each evaluation is one generated determinate pthread program (spawn trees with join values, pthread_attr_t with detach state and stack size (also sizes that are no multiple of a page, and a create/join churn on one explicit size), pthread_exit from a nested frame, statically initialised mutexes first used by several threads at once, trylock loops, spin locks incl. trylock, once, keys with destructors, cond hand-off, barrier phases, self/equal, detach, sched_yield, tiny sleeps; every return code is part of the output) executed (a) once in a fresh process on the system pthreads (MYTH_WRAP_PTHREAD=0) to obtain the expected output and (b) under the simulator with the calls redirected to MassiveThreads by the library's own --wrap list; non-trivial = a cross-worker preemption happened; distinct = distinct event signatures",
            "components": {"real": "all of /repo/src incl. myth_wrap_pthread.c, myth_real.c, myth_wrap_malloc.c, myth_wrap_socket.c (LD flavour, -DMYTH_WRAP=MYTH_WRAP_LD), linked with @src/myth-ld.opts", "stubbed": "worker OS threads (coroutines), start-up barrier, RNG, clock; the reference execution uses the real system pthreads and scheduler (it only provides the expected output of a determinate program)"},
            "assumptions": ["programs are determinate by construction; when outputs differ the reference is re-run twice before the library is blamed", "the preload (dl) mechanism is not run by this check (see DESIGN.md 10.1): same wrapper sources as ld, only the symbol resolution differs"]},
}
