#!/usr/bin/env python3
"""build.py -- builds the simulator harness binaries from /repo's CURRENT working tree.

Every check calls build(flavour) first.  Objects live in /verif/build/<flavour>-<hash>/ where the
hash covers the contents of every source that goes into the binary (repo sources, headers, the
simulator runtime, the harnesses) and the flags, so an edited /repo is always rebuilt and an
unchanged one is reused.  Concurrent callers are serialised with flock.
"""
import fcntl, hashlib, os, shutil, subprocess, sys, time
from concurrent.futures import ThreadPoolExecutor

VERIF = os.path.dirname(os.path.dirname(os.path.abspath(__file__)))
REPO = os.environ.get("VERIF_REPO", "/repo")
BUILD_ROOT = os.environ.get("VERIF_BUILD_DIR") or os.path.join(VERIF, "build")

COMMON_SRCS = ["myth_log.c", "myth_sched.c", "myth_internal_barrier.c", "myth_bind_worker.c", "myth_worker.c",
               "myth_sync.c", "myth_init.c", "myth_misc.c", "myth_tls.c", "myth_thread.c", "myth_context.c",
               "myth_if_native.c", "myth_real.c", "myth_eco.c"]
WRAP_SRCS = ["myth_wrap_pthread.c", "myth_wrap_malloc.c", "myth_wrap_socket.c"]

FLAVOURS = {
    # name: (cc, optimisation/sanitizer flags for library+harness, extra link flags)
    "O2":   ("gcc", ["-O2", "-g"], []),
    "O0":   ("gcc", ["-O0", "-g"], []),
    "asan": ("gcc", ["-O1", "-g", "-fsanitize=address", "--param", "asan-stack=0", "-fno-omit-frame-pointer"],
             ["-fsanitize=address"]),
    # library objects additionally compiled with -finstrument-functions: every function entry/exit of the
    # library (inlined ones included) becomes a schedule point, so windows that contain no explicit hook
    # (e.g. code added by a change) are interleaved too
    "fn":   ("gcc", ["-O1", "-g"], []),
    "mem":  ("gcc", ["-O1", "-g"], []),
}
LIB_EXTRA = {"fn": ["-finstrument-functions"], "mem": ["-fsanitize=thread"]}

def _files(dirpath, exts):
    out = []
    for root, dirs, files in os.walk(dirpath):
        dirs[:] = [d for d in dirs if d not in (".libs", ".deps", "build", "__pycache__")]
        for f in sorted(files):
            if f.endswith(exts):
                out.append(os.path.join(root, f))
    return sorted(out)

def source_hash(flavour):
    h = hashlib.sha1()
    h.update(repr(FLAVOURS[flavour]).encode())
    h.update(repr(LIB_EXTRA.get(flavour)).encode())
    paths = (_files(os.path.join(REPO, "src"), (".c", ".h", ".cc", ".opts")) + _files(os.path.join(REPO, "include"), (".h",))
             + _files(os.path.join(VERIF, "sim"), (".c", ".h", ".S")) + _files(os.path.join(VERIF, "harness"), (".c", ".h", ".cc", ".S"))
             + [os.path.abspath(__file__)])
    for p in paths:
        h.update(p.encode())
        with open(p, "rb") as f:
            h.update(f.read())
    return h.hexdigest()[:16]

def _run(cmd, log):
    r = subprocess.run(cmd, stdout=subprocess.PIPE, stderr=subprocess.STDOUT, text=True)
    if r.returncode != 0:
        log.append("$ " + " ".join(cmd) + "\n" + r.stdout)
    return r.returncode == 0

def lib_cppflags(wrap="MYTH_WRAP_VANILLA"):
    inc = ["-I" + os.path.join(REPO, "include"), "-I" + os.path.join(REPO, "src")]
    if not os.path.exists(os.path.join(REPO, "src", "config.h")):
        inc.append("-I" + os.path.join(VERIF, "support"))
    return ["-DMYTH_VERIF", "-D_GNU_SOURCE", "-DHAVE_CONFIG_H", "-DMYTH_WRAP=" + wrap, "-w"] + inc

def build(flavour="O2", quiet=True):
    """returns the build directory containing the binaries (mvh, ...); raises on failure"""
    os.makedirs(BUILD_ROOT, exist_ok=True)
    lock = open(os.path.join(BUILD_ROOT, ".lock"), "w")
    fcntl.flock(lock, fcntl.LOCK_EX)
    try:
        hsh = source_hash(flavour)
        bdir = os.path.join(BUILD_ROOT, "%s-%s" % (flavour, hsh))
        if os.path.exists(os.path.join(bdir, ".ok")):
            os.utime(bdir)
            return bdir
        # remove stale builds of this flavour (disk is limited)
        for d in os.listdir(BUILD_ROOT):
            if d.startswith(flavour + "-") and d != os.path.basename(bdir):
                shutil.rmtree(os.path.join(BUILD_ROOT, d), ignore_errors=True)
        shutil.rmtree(bdir, ignore_errors=True)
        os.makedirs(bdir)
        cc, oflags, ldflags = FLAVOURS[flavour]
        log = []
        jobs = []
        objs = []
        cpp = lib_cppflags()
        simflags = oflags + (["-DMVSIM_MEM_FLAVOUR"] if flavour == "mem" else []) + ["-fno-omit-frame-pointer", "-D_GNU_SOURCE", "-Wall", "-Wno-unused-function",
                             "-I" + os.path.join(VERIF, "sim"), "-I" + os.path.join(REPO, "src"),
                             "-I" + os.path.join(REPO, "include")]
        for s in COMMON_SRCS:
            o = os.path.join(bdir, "lib_" + s[:-2] + ".o")
            objs.append(o)
            jobs.append([cc] + oflags + LIB_EXTRA.get(flavour, []) + cpp + ["-c", os.path.join(REPO, "src", s), "-o", o])
        # runtime
        for s, extra in (("mvsim.c", []), ("mvsim_switch.S", []), ("mvsim_tsan.c", [])):
            o = os.path.join(bdir, "sim_" + s.rsplit(".", 1)[0] + ".o")
            objs.append(o)
            jobs.append([cc] + simflags + extra + ["-c", os.path.join(VERIF, "sim", s), "-o", o])
        o = os.path.join(bdir, "sim_mvsim_lib.o")
        objs.append(o)
        jobs.append([cc] + oflags + cpp + ["-c", os.path.join(VERIF, "sim", "mvsim_lib.c"), "-o", o])
        # harness (C part)
        hdir = os.path.join(VERIF, "harness")
        hobjs = []
        for s in sorted(os.listdir(hdir)):
            if (s.endswith(".c") or s.endswith(".S")) and (s.startswith("wl_") or s.startswith("mvh_")):
                o = os.path.join(bdir, "h_" + s[:-2] + ".o")
                hobjs.append(o)
                jobs.append([cc] + simflags + ["-I" + hdir, "-c", os.path.join(hdir, s), "-o", o])
        cxx = "g++" if cc == "gcc" else "clang++"
        for s in sorted(os.listdir(hdir)):
            if s.endswith(".cc") and s.startswith("wl_"):
                o = os.path.join(bdir, "h_" + s[:-3] + ".o")
                hobjs.append(o)
                jobs.append([cxx, "-std=c++11"] + [f for f in simflags if f != "-Wall"] + ["-w", "-I" + hdir, "-c", os.path.join(hdir, s), "-o", o])
        with ThreadPoolExecutor(max_workers=16) as ex:
            oks = list(ex.map(lambda c: _run(c, log), jobs))
        if not all(oks):
            raise RuntimeError("build failed:\n" + "\n".join(log)[:20000])
        link = [cxx] + oflags + ["-no-pie", "-Wl,-z,now", "-o", os.path.join(bdir, "mvh")] + hobjs + objs + ldflags + ["-lrt", "-lpthread", "-ldl", "-lm"]
        if not _run(link, log):
            raise RuntimeError("link failed:\n" + "\n".join(log)[:20000])
        # wsq_tso: the deque algorithm text compiled as C++ against shadow variables (no hooks needed)
        tso_o = os.path.join(bdir, "wsq_tso.o")
        cfg_inc = ["-I" + os.path.join(REPO, "src")] + ([] if os.path.exists(os.path.join(REPO, "src", "config.h")) else ["-I" + os.path.join(VERIF, "support")])
        tso_cc = [cxx, "-std=gnu++11", "-fpermissive", "-w"] + oflags + ["-D_GNU_SOURCE", "-DHAVE_CONFIG_H", "-I" + hdir, "-I" + os.path.join(VERIF, "sim")] + cfg_inc + \
                 ["-c", os.path.join(hdir, "wsq_tso.cc"), "-o", tso_o]
        if not _run(tso_cc, log):
            raise RuntimeError("wsq_tso compile failed:\n" + "\n".join(log)[:20000])
        main_o = os.path.join(bdir, "h_mvh_main.o")
        link2 = [cxx] + oflags + ["-no-pie", "-Wl,-z,now", "-o", os.path.join(bdir, "wsq_tso"), main_o, tso_o] + objs + ldflags + ["-lrt", "-lpthread", "-ldl", "-lm"]
        if not _run(link2, log):
            raise RuntimeError("wsq_tso link failed:\n" + "\n".join(log)[:20000])
        # drsim: DAG Recorder sources (with the clock seam) + the serial simulator of a parallel execution
        pdir = os.path.join(REPO, "src", "profiler")
        pflags = oflags + ["-DMYTH_VERIF", "-D_GNU_SOURCE", "-w", "-I" + pdir]
        pjobs, pobjs = [], []
        for s in ["dag_recorder.c", "chronological.c", "dr_dump.c", "gen_stat.c", "gen_dot.c", "gen_gpl.c", "gen_text.c", "read_dag.c",
                  "options.c", "interpolate_counters.c", "papi_counters.c"]:
            o = os.path.join(bdir, "dr_" + s[:-2] + ".o")
            pobjs.append(o)
            pjobs.append([cc] + pflags + ["-c", os.path.join(pdir, s), "-o", o])
        o = os.path.join(bdir, "drsim.o")
        pobjs.append(o)
        pjobs.append([cc] + pflags + ["-Wall", "-Wno-unused-function", "-I" + hdir, "-I" + os.path.join(VERIF, "sim"), "-c", os.path.join(hdir, "drsim.c"), "-o", o])
        with ThreadPoolExecutor(max_workers=16) as ex:
            oks = list(ex.map(lambda c: _run(c, log), pjobs))
        if not all(oks):
            raise RuntimeError("drsim compile failed:\n" + "\n".join(log)[:20000])
        link3 = [cxx] + oflags + ["-no-pie", "-Wl,-z,now", "-o", os.path.join(bdir, "drsim"), main_o] + pobjs + objs + ldflags + ["-lrt", "-lpthread", "-ldl", "-lm"]
        if not _run(link3, log):
            raise RuntimeError("drsim link failed:\n" + "\n".join(log)[:20000])
        # ptprog: the pthread interpreter linked with the library's own --wrap list against an LD-flavour
        # build of the library (common + wrap sources), hooks on, simulator runtime linked in
        if flavour != "asan":        # --wrap=malloc and the ASan allocator do not mix
            cpp_ld = lib_cppflags("MYTH_WRAP_LD")
            ljobs, lobjs = [], []
            for s in COMMON_SRCS + WRAP_SRCS:
                o = os.path.join(bdir, "ld_" + s[:-2] + ".o")
                lobjs.append(o)
                ljobs.append([cc] + oflags + LIB_EXTRA.get(flavour, []) + cpp_ld + ["-c", os.path.join(REPO, "src", s), "-o", o])
            o = os.path.join(bdir, "ld_mvsim_lib.o")
            lobjs.append(o)
            ljobs.append([cc] + oflags + cpp_ld + ["-c", os.path.join(VERIF, "sim", "mvsim_lib.c"), "-o", o])
            o = os.path.join(bdir, "ptprog.o")
            lobjs.append(o)
            ljobs.append([cc] + simflags + ["-I" + hdir, "-c", os.path.join(hdir, "ptprog.c"), "-o", o])
            with ThreadPoolExecutor(max_workers=16) as ex:
                oks = list(ex.map(lambda c: _run(c, log), ljobs))
            if not all(oks):
                raise RuntimeError("ptprog compile failed:\n" + "\n".join(log)[:20000])
            simobjs = [os.path.join(bdir, "sim_mvsim.o"), os.path.join(bdir, "sim_mvsim_switch.o"), os.path.join(bdir, "sim_mvsim_tsan.o")]
            link4 = [cxx] + oflags + ["-no-pie", "-Wl,-z,now", "-o", os.path.join(bdir, "ptprog"), main_o] + lobjs + simobjs + \
                    ["@" + os.path.join(REPO, "src", "myth-ld.opts")] + ldflags + ["-lrt", "-lpthread", "-ldl", "-lm"]
            if not _run(link4, log):
                raise RuntimeError("ptprog link failed:\n" + "\n".join(log)[:20000])
        open(os.path.join(bdir, ".ok"), "w").write(time.strftime("%F %T"))
        return bdir
    finally:
        fcntl.flock(lock, fcntl.LOCK_UN)
        lock.close()

if __name__ == "__main__":
    fl = sys.argv[1] if len(sys.argv) > 1 else "O2"
    t = time.time()
    print(build(fl), "%.1fs" % (time.time() - t))
