#!/usr/bin/env python3
"""selftest.py [runs] -- determinism self-test of the simulator (not a manifest check).

For every workload class: the same (seed, run index) must give the same 64-bit event signature
  (a) in two different processes,
  (b) when the batch is split differently (--start/--runs), i.e. independent of in-process history,
  (c) with the library built at -O2 and at -O0 (same hook sequence), for the whole-library classes.
Prints one line per class; exit 0 iff everything is identical."""
import os, sys, subprocess, tempfile, array
sys.path.insert(0, os.path.dirname(os.path.abspath(__file__)))
import build as B

def sigs(binary, cls, seed, start, runs, tmp, tag, extra=()):
    f = os.path.join(tmp, "%s-%s-%d-%d.sig" % (tag, cls, start, runs))
    if os.path.exists(f):
        os.unlink(f)
    cmd = [binary, "--class", cls, "--seed", str(seed), "--start", str(start), "--runs", str(runs), "--sigfile", f] + list(extra)
    r = subprocess.run(cmd, stdout=subprocess.PIPE, stderr=subprocess.PIPE, text=True, timeout=1800)
    if "VIOL " in r.stdout:
        return None
    a = array.array("Q")
    with open(f, "rb") as fh:
        a.fromfile(fh, os.path.getsize(f) // 8)
    return [a[i] for i in range(0, len(a), 2)]

def main():
    runs = int(sys.argv[1]) if len(sys.argv) > 1 else 600
    o2, o0 = B.build("O2"), B.build("O0")
    classes = [("mvh", c) for c in "forkjoin mutex cond barrier jc uncond felock once tls dtor timed initfini bulk taskgroup parfor regs".split()]
    classes += [("wsq_tso", "wsq"), ("drsim", "dr"), ("ptprog", "pt")]
    bad = 0
    with tempfile.TemporaryDirectory(prefix="mvself-") as tmp:
        for binname, cls in classes:
            n = runs if binname != "ptprog" else max(60, runs // 10)
            seed = 9001
            a = sigs(os.path.join(o2, binname), cls, seed, 0, n, tmp, "a")
            b = sigs(os.path.join(o2, binname), cls, seed, 0, n, tmp, "b")
            third = n // 3
            c = []
            for k, (st, ln) in enumerate([(0, third), (third, third), (2 * third, n - 2 * third)]):
                part = sigs(os.path.join(o2, binname), cls, seed, st, ln, tmp, "c%d" % k)
                c = None if (c is None or part is None) else c + part
            d = sigs(os.path.join(o0, binname), cls, seed, 0, n, tmp, "d") if binname in ("mvh", "ptprog") else a
            ok_proc = a is not None and a == b
            ok_split = a is not None and c is not None and a == c
            ok_opt = a is not None and d is not None and a == d
            print("%-10s %-10s runs=%d  two-processes=%s  batch-split=%s  O0==O2=%s" %
                  (binname, cls, n, "same" if ok_proc else "DIFFERENT", "same" if ok_split else "DIFFERENT", "same" if ok_opt else "DIFFERENT"), flush=True)
            bad += (not ok_proc) + (not ok_split) + (not ok_opt)
        # the instrumented flavours: same batch, two processes (a run may depend on its position in the batch there,
        # see DESIGN 10.1, so the batch split is not compared)
        for fl in ("fn", "mem"):
            bd = B.build(fl)
            for cls in ("forkjoin", "mutex", "dtor", "initfini"):
                a = sigs(os.path.join(bd, "mvh"), cls, 9002, 0, max(100, runs // 3), tmp, "x" + fl)
                b = sigs(os.path.join(bd, "mvh"), cls, 9002, 0, max(100, runs // 3), tmp, "y" + fl)
                ok = a is not None and a == b
                print("%-10s %-10s flavour=%-3s two-processes=%s" % ("mvh", cls, fl, "same" if ok else "DIFFERENT"), flush=True)
                bad += (not ok)
    print("selftest: %d mismatch(es)" % bad)
    return 1 if bad else 0

if __name__ == "__main__":
    sys.exit(main())
