#!/bin/bash
# seedmatrix.sh [budget_s] -- re-run the detection matrix: every seeded change under /verif/seeded is applied to a
# scratch worktree of /repo (never to /repo itself; SEEDS=<regex> selects a subset), the check of the property it breaks runs against that worktree
# (VERIF_REPO), and the change is reverted.  Prints one line per change; exit 0 iff every change is caught.
budget=${1:-40}
cd "$(dirname "$0")/.."
wt=${TMPDIR:-/tmp}/mx-repo-$$
git -C /repo worktree add -q $wt HEAD || exit 3
( cd $wt && ./configure >/dev/null 2>&1 ) || { echo "configure failed"; exit 3; }
mkdir -p $wt/_evidence $wt/_replays $wt/_build
missed=0
for d in seeded/*/; do
  id=$(basename $d)
  if [ -n "$SEEDS" ] && ! echo "$id" | grep -Eq "$SEEDS"; then continue; fi
  prop=$(python3 -c "import json,sys; print(json.load(open('$d/meta.json'))['breaks_property'].split()[0])")
  ( cd $wt && git apply "$OLDPWD/$d/patch.diff" ) || { echo "$id: patch does not apply"; missed=$((missed+1)); continue; }
  out=$(VERIF_REPO=$wt VERIF_BUDGET_S=$budget VERIF_EVIDENCE_DIR=$wt/_evidence VERIF_REPLAYS_DIR=$wt/_replays VERIF_BUILD_DIR=$wt/_build python3 driver/check.py --property $prop --tier quick 2>&1)
  rc=$?
  ( cd $wt && git checkout -q -- . )
  cls=$(echo "$out" | grep -o 'replay=[^ ]*' | sed 's/.*replays\///; s/-[0-9]*\(-batch\)\?\.json//' | sort -u | tr '\n' ' ')
  known=$(python3 -c "import json; print(int(bool(json.load(open('$d/meta.json')).get('expected_missed'))))")
  if [ $rc -eq 1 ]; then echo "$id: CAUGHT by $prop ($cls)"
  elif [ "$known" = 1 ] && [ $rc -eq 0 ]; then echo "$id: NOT DETECTED by $prop -- known limit, see its meta.json and DESIGN 10.6"
  else echo "$id: MISSED by $prop (rc=$rc)"; missed=$((missed+1)); fi
done
git -C /repo worktree remove --force $wt
echo "missed=$missed"
[ $missed -eq 0 ]
