"""envcheck.py -- configuration-string part of C15 (input generation, NOT schedule simulation).

Seeded, grammar-aware strings for MYTH_NUM_WORKERS / MYTH_WORKER_NUM / MYTH_DEF_STKSIZE /
MYTH_BIND_WORKERS / MYTH_CPU_LIST are handed to a fresh process each (`mvh --envprobe N`,
simulator inactive, real worker pthreads).  Oracle: exit status 0 within the time limit and
the worker count the documentation promises (the value if positive, else the CPU count).
Well-formed-but-unusable values (tiny stacks, thousands of workers) are never generated.
"""
import os, random, re, subprocess, time

def c_atoi(s):
    m = re.match(r"[ \t\n\v\f\r]*([+-]?\d+)", s)
    if not m:
        return 0
    v = int(m.group(1))
    return v if -2**31 <= v < 2**31 else None   # None: overflow, undefined -> never generated for numeric vars

JUNK = ["", " ", "abc", "-", "+", "--3", "0", "-1", "-64", "00", "0x10", "1e3", " 4", "4 ", "4abc", "four", "\t8", "8\n", "\n", "3.5", "+2", ",", ":", "NaN", "-0"]

def gen_numworkers(rng):
    r = rng.random()
    if r < 0.45:
        return rng.choice(JUNK)
    if r < 0.9:
        return str(rng.choice([1, 2, 3, 4, 7, 8, 16, 33, 64]))
    return rng.choice(["%d%s" % (rng.randint(1, 16), rng.choice(["x", " ", "\n", ".5", "-2"])), " %d" % rng.randint(1, 16), "+%d" % rng.randint(1, 9)])

def gen_stksize(rng):
    r = rng.random()
    if r < 0.6:
        # only values the library must ignore (non-positive / non-numeric); small positive numbers are
        # well-formed requests for an unusably small stack, which the property excludes
        return rng.choice([j for j in JUNK if (c_atoi(j) or 0) <= 0] + ["-4096", "0k", "k"])
    return rng.choice(["16384", "32768", "65536", "131072", "131072x", " 65536", "1048576"])

def gen_bind(rng):
    return rng.choice(["0", "1", "", "yes", "-1", "2", "1x", " 1", "true", "\n"])

def gen_range(rng):
    a = rng.choice([0, 1, 2, 3, 5, 15, 16, 63, 1023, 1024, 5000])
    r = rng.random()
    if r < 0.4:
        return str(a)
    b = a + rng.choice([0, 1, 2, 4, 16, -1, 3000])
    if r < 0.7:
        return "%d-%d" % (a, max(b, 0))
    c = rng.choice([0, 1, 2, 3, 7, 100000])
    return "%d-%d:%d" % (a, max(b, 0), c)

def gen_cpulist(rng):
    r = rng.random()
    if r < 0.3:
        return ",".join(gen_range(rng) for _ in range(rng.randint(1, 4)))
    s = ",".join(gen_range(rng) for _ in range(rng.randint(0, 3)))
    muts = ["", "\n", ",", "-", ":", "a", " ", "0-", "-3", "1:2", "1--2", "1-2:", "1-2::3", ",,", "1,\n", "1\n", "\n1", "0-1023", "0-2000", "0-99999999999",
            "99999999999", "1-0", "3-3", "0-8:0", "٣", "1;2", "1 ,2", "0x3", "+1", "1-2-3"]
    m = rng.choice(muts)
    pos = rng.choice(["pre", "post", "mid", "only"])
    if pos == "only" or not s:
        return m
    if pos == "pre":
        return m + s
    if pos == "post":
        return s + m
    i = rng.randint(0, len(s))
    return s[:i] + m + s[i:]

def run(binpath, seed, tier, deadline, ncpu_parallel=4):
    rng = random.Random(seed * 7919 + 13)
    ncpu = os.sysconf("SC_NPROCESSORS_ONLN")
    stats = {"done": 0, "x_env_cases": 0, "x_env_malformed_cases": 0, "x_env_vars_hist": {}, "samples": []}
    viols = []
    t_case = 20
    while time.time() < deadline and not viols:
        env = {k: v for k, v in os.environ.items() if not k.startswith("MYTH_")}
        env["MYTH_BIND_WORKERS"] = "0"
        desc = {}
        malformed = False
        which = rng.sample(["NW", "WN", "STK", "BIND", "CPU"], rng.randint(1, 3))
        expect = ncpu
        if "NW" in which:
            v = gen_numworkers(rng); env["MYTH_NUM_WORKERS"] = v; desc["MYTH_NUM_WORKERS"] = v
            a = c_atoi(v); expect = a if a and a > 0 else ncpu
            malformed |= not re.fullmatch(r"[1-9]\d*", v)
        if "WN" in which:
            v = gen_numworkers(rng); env["MYTH_WORKER_NUM"] = v; desc["MYTH_WORKER_NUM"] = v
            if "NW" not in which:
                a = c_atoi(v); expect = a if a and a > 0 else ncpu
            malformed |= not re.fullmatch(r"[1-9]\d*", v)
        if "STK" in which:
            v = gen_stksize(rng); env["MYTH_DEF_STKSIZE"] = v; desc["MYTH_DEF_STKSIZE"] = v
            malformed |= not re.fullmatch(r"[1-9]\d*", v)
        if "BIND" in which:
            v = gen_bind(rng); env["MYTH_BIND_WORKERS"] = v; desc["MYTH_BIND_WORKERS"] = v
            malformed |= v not in ("0", "1")
        if "CPU" in which:
            v = gen_cpulist(rng); env["MYTH_CPU_LIST"] = v; desc["MYTH_CPU_LIST"] = v
            if "BIND" not in which and rng.random() < 0.5:
                env["MYTH_BIND_WORKERS"] = "1"; desc["MYTH_BIND_WORKERS"] = "1"
            malformed |= not re.fullmatch(r"\d+(-\d+(:[1-9]\d*)?)?(,\d+(-\d+(:[1-9]\d*)?)?)*", v)
        try:
            env_b = {k: v for k, v in env.items() if "\0" not in v}
            r = subprocess.run([binpath, "--envprobe", str(expect)], env=env_b, stdout=subprocess.PIPE, stderr=subprocess.PIPE, text=True, timeout=t_case, errors="replace")
            ok = r.returncode == 0 and "ENVPROBE-OK" in r.stdout
            why = "exit status %d: %s" % (r.returncode, (r.stdout + " | " + r.stderr)[-400:].replace("\n", " | "))
        except subprocess.TimeoutExpired:
            # natural timing: on an overloaded machine (or with the worker bound to a busy CPU) a correct process can
            # exceed the limit.  Only a case that also exceeds a six times longer limit twice more is reported.
            ok = False
            why = "did not finish within %d s (and twice more within %d s)" % (t_case, 6 * t_case)
            for _retry in range(2):
                try:
                    r = subprocess.run([binpath, "--envprobe", str(expect)], env=env_b, stdout=subprocess.PIPE, stderr=subprocess.PIPE, text=True, timeout=6 * t_case, errors="replace")
                    ok = r.returncode == 0 and "ENVPROBE-OK" in r.stdout
                    if not ok:
                        why = "exit status %d: %s" % (r.returncode, (r.stdout + " | " + r.stderr)[-400:].replace("\n", " | "))
                    stats["x_env_timeouts_retried"] = stats.get("x_env_timeouts_retried", 0) + 1
                    break
                except subprocess.TimeoutExpired:
                    continue
        stats["done"] += 1
        stats["x_env_cases"] += 1
        stats["x_env_malformed_cases"] += 1 if malformed else 0
        for k in desc:
            stats["x_env_vars_hist"][k] = stats["x_env_vars_hist"].get(k, 0) + 1
        if len(stats["samples"]) < 4:
            stats["samples"].append({"plan": "environment " + repr(desc), "execution": "exit 0, %s" % r.stdout.strip() if ok else why})
        if not ok:
            viols.append({"vclass": "C15-ENV", "msg": "environment %r: %s" % (desc, why), "run": str(stats["done"]), "replay": "-",
                          "envcase": {"env": desc, "expect_nworkers": expect}})
    return stats, viols
