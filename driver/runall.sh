#!/bin/bash
# runall.sh [tier] -- run every registered check once; prints one summary line per property
tier=${1:-quick}
cd /verif
for p in $(python3 -c "
import json
print(' '.join(c['property_id'] for c in json.load(open('MANIFEST.json'))['checks']))"); do
  python3 driver/check.py --property $p --tier $tier > /tmp/runall-$p.out 2>&1
  rc=$?
  echo "$p rc=$rc $(grep -E 'VIOLATION|KNOWN-FINDING|runs,|INFRA' /tmp/runall-$p.out | tr '\n' ' ' | cut -c1-300)"
done
