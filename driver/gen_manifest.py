#!/usr/bin/env python3
"""gen_manifest.py -- writes /verif/MANIFEST.json from the property table (driver/props.py)."""
import json, os, subprocess, sys
sys.path.insert(0, os.path.dirname(os.path.abspath(__file__)))
from props import PROPS
VERIF = os.path.dirname(os.path.dirname(os.path.abspath(__file__)))

TEXT = {
 "C01": ("whole-library deterministic simulation: seeded random spawn trees (create / create_ex with poisoned-then-initialised attribute objects, NULL id, both creation orders, custom stacks, return vs myth_exit) under seeded adversarial schedules on 1..8(16) simulated workers; oracle = per-node invocation counter, join value map, child memory visible after join, termination under a fair drain",
         "5.C01"),
 "C02": ("seeded search over interleavings of the real deque code: (a) x86-TSO/SC unit simulator running the unmodified myth_wsqueue_func.h text against shadow variables with per-participant store buffers (conservation of tagged items), (b) whole-library runs with custom steal functions (declining take, peek-then-take, take-then-pass), tiny capacities that force re-centring, yield-heavy programs; oracle = exactly-once execution of every thread op and termination",
         "5.C02"),
 "C12": ("whole-library simulation with an ownership ledger fed by guarded hooks in the four allocate/release functions: no block handed out while allocated, none released twice, live stacks pairwise disjoint, no stack released while code still runs on it, records released only for finished threads, release lands on the executing worker's list; released stacks and results are poisoned; thread bodies keep stack canaries across every blocking call; all size classes from one page to 16 MiB",
         "5.C12"),
 "C13": ("whole-library simulation of create/reap histories: every thread reaped by exactly one of join / tryjoin loop / timedjoin (virtual deadlines) / detach before or after finish / detach-state attribute; oracle = ledger at quiescence (nothing but the main record and never-reaped threads allocated), bounded fresh blocks on one worker, tryjoin EBUSY only if the result was not yet published, timedjoin gives up only after its deadline",
         "5.C13"),
 "C04": ("whole-library simulation of k threads x m acquisitions mixing lock / trylock loops / timedlock (virtual deadlines), critical sections containing schedule points, yields and blocking calls (holder needs a third thread), 1..8 workers incl. one-worker runs; oracle = occupancy witness ==1, acquisition counts, trylock never blocks (no BLOCK probe) and reports EBUSY only if another thread was between lock and unlock during the call, termination under fair drain (no lost wake-up)", "5.C04"),
 "C05": ("whole-library simulation of monitor programs: bounded buffer with exact quotas, gate (N waiters + broadcast issued after all registered under the mutex), turnstile, signals into the void; oracle = produced multiset == consumed, broadcast releases all, no return from wait without a signal after entering, mutex-held witness right after wait returns, termination", "5.C05"),
 "C06": ("whole-library simulation of N in {1,2,3,4,7,8,16,33} (occasionally a crowd of 63..1000) participants x up to 20 rounds, one participant racing into the next round; oracle = arrivals[k]==N at every return from round k, exactly one serial-thread indicator per round, all return, destroy succeeds", "5.C06"),
 "C07": ("whole-library simulation with N at the field-width boundaries (0..64), waiters arriving before/between/after decrements spread over several threads, late waiters; oracle = no wait returns before the N-th dec was issued, all waiters released, late wait does not block, termination", "5.C07"),
 "C08": ("whole-library simulation of the documented protocol (announce by CAS, then wait; signal after seeing the announcement) on 1..3 single-slot channels with up to 1000 rendez-vous; oracle = sequence numbers, wake-ups never exceed signals issued, wake-ups == signals at the end, termination (signal hands the waiter over)", "5.C08"),
 "C09": ("whole-library simulation of a single-slot mailbox with p producers, c consumers and plain lock/unlock readers; oracle = consumed multiset == produced, status under the lock is the one waited for, termination", "5.C09"),
 "C14": ("whole-library simulation of 1..16 callers on 1..8 workers over 1..4 once-controls with init routines that yield, block on a mutex held by a sibling, or create and join a thread; oracle = execution counter ==1, completed flag visible to every caller right after return, late calls run nothing", "5.C14"),
 "C10": ("whole-library simulation (ASan build for most runs): sequential histories of key create/delete/set/get over all 1024 indices incl. exhaustion, reuse and invalid keys; threads with private dictionaries over keys spread over the range, migrating between workers; 2-4 threads creating/deleting keys concurrently; several generations of threads on recycled records, some keys with destructors that yield (the exiting thread migrates inside them); oracle = dictionary per thread, live keys pairwise distinct, EINVAL/NULL for out-of-range", "5.C10"),
 "C11": ("whole-library simulation (ASan build for most runs): threads store values under seeded key subsets that leave earlier tree branches empty, keys with/without destructors and NULL values mixed, termination by return / myth_exit from a nested frame / cancellation from another thread, a quarter of the destructors yield; oracle = multiset of (destructor function, value) calls equals the model exactly once each, no call with a foreign value or for a key without destructor, no crash", "5.C11"),
 "C15": ("simulated part: seeded init/fini histories (1..8 cycles per run, 1..64 workers requested through a global attribute object, the environment, or implicit first use; 2-3 native contexts racing the first use) under seeded schedules in which the main thread is stolen so that myth_fini runs on another worker; oracle = worker count and worker indices from every thread, exactly n-1 workers spawned per initialisation, all worker coroutines returned after fini, next init works. Input part (input generation, not schedule search): seeded malformed strings for MYTH_NUM_WORKERS / MYTH_WORKER_NUM / MYTH_DEF_STKSIZE / MYTH_BIND_WORKERS / MYTH_CPU_LIST in fresh processes with real worker threads; oracle = exit status 0, documented worker count, bounded time", "5.C15"),
 "C20": ("whole-library simulation against a virtual clock (coarse: reads that do not advance; forward jumps): myth_sleep/usleep/nanosleep with durations 0..seconds and malformed requests, timed lock with past/present/future deadlines against a holder thread, timed join against running/finished targets, sibling threads counting progress; oracle = virtual elapsed >= requested, EINVAL for malformed, timeout only after the last clock value handed to the call exceeded the deadline, success when the mutex was free throughout / the target had published its result before the call, a sleeper on the only worker lets a runnable sibling progress, and a sleeper whose worker is the only free one runs a thread queued on the other (busy) worker", "5.C20"),
 "C17": ("whole-library simulation of myth_create_join_many_ex / _various_ex (n incl. 0, all stride combinations incl. shared function slot and strides larger than the element, results/ids/attrs NULL or given, per-item attributes, nested call from a thread) and, through a C++ harness, of mtbb::task_group (up to 40 run() calls > inline capacity 8, nested groups, reuse) and mtbb::parallel_for (first,last), (first,last,step) and the grain-size form incl. empty, single-element and reversed ranges; oracle = per-item counters, argument addresses, result/id slots, guard bytes, nothing for n=0 / empty range, i.e. the sequential loop", "5.C17"),
 "C03": ("whole-library simulation (library built at -O2 and at -O0) of probe threads that call every kind of switching API through an assembly stub loading per-(thread,operation) patterns into rbx, rbp, r12-r15 and a stack array, entered through both creation paths and migrating between workers under the seeded scheduler; oracle = bit-exact registers and stack contents after every operation, 16-byte aligned frame asserted inside every hook (hooks execute in all context-switch callbacks, thread entry paths and the scheduler), aligned SSE store at thread entry", "5.C03"),
 "C18": ("serial deterministic simulation of multi-worker executions for the DAG Recorder: generated well-nested task programs run on a virtual work-stealing scheduler with a virtual clock, each execution recorded several times with identical timing under different contraction options (never / by span / uncollapse_min / by node count / towards a target size); oracle = work, critical path, interval counts and edge counts by kind computed independently from the generated program and from the per-interval user hooks, compared with GS.root->info, with the .stat file, with the totals of the dumped DAG (materialised edges + logical counts) and across all option settings; T_inf <= T_1", "5.C18"),
 "C19": ("same simulated executions: dr_dump -> dr_read_dag -> re-dump and text conversion must be identical; an independent structural validator checks child/subgraph offsets, edge endpoints, edge grouping/sorting and edge ranges, reachability of every leaf; a chronological replay must start and end every leaf once and finish with nothing running or ready; dr_copy_pi_dag (shrink) under seeded targets must preserve the totals and stay well formed; 1..50 distinct source-file names", "5.C19"),
 "C16": ("differential deterministic simulation: one pthread-only interpreter, linked with the library's own @myth-ld.opts against an LD-flavour build of the library with hooks on, executes generated determinate programs over the supported subset under seeded schedules; the expected output of each program comes from the same binary run in a fresh process on the system pthreads (MYTH_WRAP_PTHREAD=0); oracle = identical output incl. every return code, no hang", "5.C16"),
}
NOTE = {
 "C16": "link-time wrapping (ld) is explored under the simulator; the preloading mechanism (dl) is NOT run by this check (same wrapper sources, symbol resolution differs; the repository's own *_dl tests exercise it under natural timing); the reference executions use the OS scheduler but decide nothing by themselves",
 "C18": "the recorder, not MassiveThreads, is the system under test; the tasking runtime is simulated; PAPI counters off",
 "C19": "byte comparison ignores the two in-memory pointers of the string-table header that the writer stores and the reader overwrites; no I/O fault injection",
 "C03": "x86-64 inline-assembly context switch only; MXCSR/x87 control words are not saved by the library (MYTH_SAVE_FPCSR 0) and are not checked; the red-zone skip is internal to the library frame at the asm statement",
 "C17": "stride arithmetic is input-driven; grain size 0 is not generated; range-object parallel_for (needs TBB headers) is not built",
 "C15": "the configuration-string half is input generation in fresh processes (natural timing); values that are well formed but unusable (tiny stacks, thousands of workers, numeric overflow) are never generated",
 "C20": "backward clock jumps are not injected (the property is unfalsifiable against them); durations above ~3 s are not generated",
 "C10": "index arithmetic is input-driven; the simulator contributes migration and the concurrent create/delete interleavings",
 "C11": "failure modes are input-driven (which keys hold values); destructor calls with a NULL value are tolerated; reads outside the key table are detected through their consequences",
 "C04": "EBUSY justification uses an over-approximation of 'held' (another thread between invoking lock and returning from unlock), so it cannot raise a false alarm; return value of unlock is not part of C04",
 "C05": "predicate loops everywhere (spurious wake-ups are only flagged in the scenario where the harness knows no signal was sent)",
 "C06": "N up to 33 (crowds up to 1000 with <= 3 rounds), rounds up to 20",
 "C07": "N up to 64 (occasionally up to 4097) by real decrements, up to 300 waiters; larger N only through init arithmetic",
 "C08": "only the documented announce-then-wait protocol is exercised",
 "C09": "reuses the mutex/cond schedule points",
 "C14": "controls are zero-initialised objects (MYTH_ONCE_INIT equivalent)",
 "C01": "sequential consistency at hook granularity; one OS thread; x86-64 inline context switch only; sampling, not proof",
 "C02": "TSO only for the deque algorithm text (spin lock and fences modelled there); whole-library part sequentially consistent",
 "C12": "sizes above 1 GiB excluded; ledger trusts the four hook call sites to be the only allocation/release paths",
 "C13": "bounded-memory claim checked as 'fresh blocks <= peak live + 1 per size class' on one worker, not by RSS",
}
TECH = "deterministic simulation with fault injection (seeded schedule search over coroutine workers, virtual clock, poisoned memory)"

def main():
    props = [json.loads(l) for l in open(os.path.join(VERIF, "properties.jsonl"))]
    hooks = subprocess.check_output(["git", "-C", "/repo", "log", "--format=%h", "--grep", "^verif hooks"], text=True).split()
    checks, na = [], []
    for p in props:
        pid = p["id"]
        if pid in PROPS and pid in TEXT:
            checks.append({
                "property_id": pid,
                "quick_cmd": "python3 driver/check.py --property %s --tier quick" % pid,
                "thorough_cmd": "python3 driver/check.py --property %s --tier thorough" % pid,
                "evidence_file": "/verif/evidence/%s.json" % pid,
                "replay_cmd_template": "python3 driver/check.py --replay {path}",
                "engine": PROPS[pid].get("engine", "mvsim"),
                "level_claimed": {"category": "exploration", "text": TEXT[pid][0], "design_ref": TEXT[pid][1]},
                "level_note": NOTE[pid],
                "technique": TECH,
            })
        else:
            na.append({"property_id": pid, "reason": "check not built yet (work in progress; planned in DESIGN.md section 5)"})
    m = {
        "version": 1,
        "setup_cmd": "python3 driver/build.py O2 && python3 driver/build.py O0 && python3 driver/build.py asan && python3 driver/build.py fn && python3 driver/build.py mem",
        "hooks": {"guard": "MYTH_VERIF",
                  "enable": "checks compile /repo/src/*.c themselves with -DMYTH_VERIF (driver/build.py) and link the simulator runtime /verif/sim",
                  "baseline_off_cmd": "cd /repo && make -j8 >/dev/null 2>&1 && make -j8 check",
                  "source_commits": hooks[::-1], "add_only": True},
        "engines": [
            {"name": "mvsim", "path": "/verif/sim", "serves_properties": sorted(k for k in PROPS if PROPS[k].get("engine", "mvsim") == "mvsim"),
             "kind_free_text": "whole-library deterministic simulator: workers as coroutines on one OS thread, seeded scheduler, virtual clock, allocation ledger"},
            {"name": "wsq_tso", "path": "/verif/harness/wsq_tso.cc", "serves_properties": ["C02"],
             "kind_free_text": "x86-TSO/SC unit simulator running the real deque algorithm text against shadow variables with per-participant store buffers"},
            {"name": "drsim", "path": "/verif/harness/drsim.c", "serves_properties": ["C18", "C19"],
             "kind_free_text": "serial discrete-event simulator of a multi-worker task-parallel execution driving the real DAG Recorder"},
        ],
        "checks": checks,
        "not_applicable": na,
        "notes": "see DESIGN.md; known_findings.json lists the genuine defects found (all fixed so far by 'fix:' commits in /repo)",
    }
    json.dump(m, open(os.path.join(VERIF, "MANIFEST.json"), "w"), indent=1)
    print("checks:", [c["property_id"] for c in checks])

if __name__ == "__main__":
    main()
