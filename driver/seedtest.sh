#!/bin/bash
# seedtest.sh <seed-id> <property> [check-property ...]
# Confirms a seeded change delivered in /tmp/sa/<seed-id>/_out (patch.diff + demo) and runs my checks against it:
#  1. fresh scratch worktree of /repo + patch: builds, `make check` = 257 passes
#  2. demo fails with the change (agent's worktree build) -- run by hand / recorded separately
#  3. apply the patch to /repo, run the quick check(s), undo
# Results are appended to /tmp/sa/<seed-id>/_out/confirm.log
id=$1; shift
props="$@"
out=/tmp/sa/$id/_out
log=$out/confirm.log
: > $log
wt=/tmp/vt-$id
git -C /repo worktree remove --force $wt 2>/dev/null
git -C /repo worktree add -q $wt HEAD || exit 3
( cd $wt && git apply $out/patch.diff && ./configure >/dev/null 2>&1 && make -j8 >/dev/null 2>&1 && make -j8 check > $wt/check.log 2>&1
  echo "suite with change: $(grep -E '^# (PASS|FAIL):' $wt/check.log | tr '\n' ' ')" ) >> $log 2>&1
git -C /repo worktree remove --force $wt
# my checks against the change
( cd /repo && git apply $out/patch.diff ) || { echo "patch does not apply to /repo" >> $log; exit 3; }
for p in $props; do
  ( cd /verif && mkdir -p $out/ev $out/rp && VERIF_EVIDENCE_DIR=$out/ev VERIF_REPLAYS_DIR=$out/rp VERIF_BUDGET_S=${SEED_BUDGET_S:-25} python3 driver/check.py --property $p --tier quick ) > $out/check-$p.out 2>&1
  echo "check $p rc=$? : $(grep -E 'VIOLATION|runs,' $out/check-$p.out | tr '\n' ' ')" >> $log
done
git -C /repo checkout -- .
cat $log
