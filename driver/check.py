#!/usr/bin/env python3
"""check.py -- runs the simulation check of one property and writes its evidence file.

  check.py --property C01 --tier quick|thorough
  check.py --replay replays/<file>.json

Exit 0: property held on everything explored (known findings are listed, not alarms).
Exit 1: violation found; prints  VIOLATION property=<id> replay=<path>
Exit 2: infrastructure error (build failure, a violation that does not replay, ...).
"""
import argparse, array, json, os, random, re, shutil, subprocess, sys, tempfile, threading, time
sys.path.insert(0, os.path.dirname(os.path.abspath(__file__)))
import build as B
from props import PROPS, SITE_NAMES

VERIF = B.VERIF
NCPU = int(os.environ.get("VERIF_JOBS", "16"))
REPLAYS = os.environ.get("VERIF_REPLAYS_DIR", os.path.join(VERIF, "replays"))     # overridden only by driver/seedmatrix.sh
EVID = os.environ.get("VERIF_EVIDENCE_DIR", os.path.join(VERIF, "evidence"))
KNOWN = os.path.join(VERIF, "known_findings.json")

def log(*a):
    print(*a, file=sys.stderr, flush=True)

class Job:
    """one (binary, class, overrides, flavour) stream of simulated runs"""
    def __init__(self, spec, bdirs):
        self.spec = spec
        self.bin = os.path.join(bdirs[spec.get("flavour", "O2")], spec["bin"])
        self.cls = spec["cls"]
        self.sets = spec.get("sets", {})
        self.weight = spec.get("weight", 1.0)
        self.flavour = spec.get("flavour", "O2")
        self.env = spec.get("env", {})
        self.py = spec.get("py")
        self.stats = []
        self.viols = []
        self.next_start = 0
        self.lock = threading.Lock()

    def cmd(self, seed, start, runs, tier, outdir, sigfile, max_seconds, extra_sets=None):
        c = [self.bin, "--class", self.cls, "--seed", str(seed), "--start", str(start), "--runs", str(runs),
             "--tier", tier, "--replay-out", outdir, "--max-seconds", "%.1f" % max_seconds]
        if sigfile:
            c += ["--sigfile", sigfile]
        sets = dict(self.sets)
        if extra_sets:
            sets.update(extra_sets)
        for k, v in sets.items():
            c += ["--set", "%s=%s" % (k, v)]
        return c

def parse_viol(line):
    m = re.match(r"VIOL (.*?) msg=(.*)$", line)
    if not m:
        return None
    d = dict(kv.split("=", 1) for kv in m.group(1).split() if "=" in kv)
    d["msg"] = m.group(2)
    return d

def run_stream(job, seed, tier, tmpdir, deadline, chunk, results, wid, max_viols):
    """worker thread: keeps starting harness processes on fresh index ranges until the deadline"""
    sigfile = os.path.join(tmpdir, "sig-%s-%s-%d.bin" % (job.cls, job.flavour, wid))
    # replay files are named after (class, seed, run index): every job writes into its own directory, otherwise two
    # build flavours that fail on the same run write the same file at the same time (mixed, invalid JSON)
    outdir = os.path.join(tmpdir, "out-%d" % id(job))
    os.makedirs(outdir, exist_ok=True)
    while time.time() < deadline:
        with job.lock:
            if len(job.viols) >= max_viols:
                return
            start = job.next_start
            job.next_start += chunk
        if deadline - time.time() <= 0.2:
            return
        env = dict(os.environ)
        env.update(job.env)
        env.setdefault("ASAN_OPTIONS", "detect_leaks=0:exitcode=77:abort_on_error=1:handle_abort=0:alloc_dealloc_mismatch=0:detect_stack_use_after_return=0")
        pos = start
        end = start + chunk
        while pos < end and time.time() < deadline:
            cmd = job.cmd(seed, pos, end - pos, tier, outdir, sigfile, max(0.5, deadline - time.time()))
            try:
                r = subprocess.run(cmd, stdout=subprocess.PIPE, stderr=subprocess.PIPE, text=True, env=env,
                                   timeout=max(30, deadline - time.time() + 200), errors="replace")
            except subprocess.TimeoutExpired:
                with job.lock:
                    job.viols.append({"vclass": "INFRA-TIMEOUT", "msg": "harness process did not finish", "run": str(pos), "replay": "-", "job": job, "seed": seed})
                return
            st = None
            viol = None
            slow = None
            for line in r.stdout.splitlines():
                if line.startswith("STATS "):
                    try:
                        st = json.loads(line[6:])
                    except Exception:
                        pass
                elif line.startswith("VIOL "):
                    viol = parse_viol(line)
                elif line.startswith("SLOW "):
                    slow = dict(kv.split("=", 1) for kv in line.split()[1:] if "=" in kv)
            if st:
                with job.lock:
                    job.stats.append(st)
                break
            if slow and not viol and not st:
                # a run that kept reaching hooks but used more real CPU time than the harness allows one run: it decides
                # nothing (real time never produces a verdict); count it and go on with the next index
                sr = int(slow.get("run", pos))
                with job.lock:
                    job.stats.append({"done": max(0, sr - pos), "abandoned_slow": 1})
                pos = sr + 1
                continue
            if viol:
                viol["stderr"] = r.stderr[-2000:]
                viol["batch_start"] = pos
                viol["job"] = job
                viol["seed"] = seed
                vr = int(viol.get("run", pos))
                with job.lock:
                    job.stats.append({"done": max(0, vr - pos + 1)})
                    job.viols.append(viol)
                    if len(job.viols) >= max_viols:
                        return
                pos = vr + 1
                continue
            # died without a report: sanitizer abort or unexpected exit
            with job.lock:
                job.viols.append({"vclass": "ASAN" if r.returncode == 77 else "INFRA-DIED", "run": str(pos), "replay": "-",
                                  "msg": "harness exited with status %d: %s" % (r.returncode, (r.stderr or r.stdout)[-1500:].replace("\n", " | ")),
                                  "job": job, "seed": seed})
            return

def run_py(job, seed, tier, deadline):
    import importlib
    mod = importlib.import_module(job.py)
    st, viols = mod.run(job.bin, seed, tier, deadline)
    with job.lock:
        job.stats.append(st)
        for v in viols:
            v["job"] = job
            v["seed"] = seed
            job.viols.append(v)

def load_known():
    if not os.path.exists(KNOWN):
        return []
    return json.load(open(KNOWN)).get("findings", [])

def match_known(known, prop, viol):
    for k in known:
        if k.get("status") != "open":
            continue
        if k.get("vclass") and k["vclass"] != viol.get("vclass"):
            continue
        if k.get("msg_regex") and not re.search(k["msg_regex"], viol.get("msg", "")):
            continue
        return k
    return None

def viol_property(prop, viol):
    m = re.match(r"(C\d\d)-", viol.get("vclass", ""))
    return m.group(1) if m else prop

def replay_once(binpath, path, env=None):
    e = dict(os.environ)
    if env:
        e.update(env)
    e.setdefault("ASAN_OPTIONS", "detect_leaks=0:exitcode=77:abort_on_error=1:handle_abort=0:alloc_dealloc_mismatch=0:detect_stack_use_after_return=0")
    try:
        r = subprocess.run([binpath, "--replay", path], stdout=subprocess.PIPE, stderr=subprocess.PIPE, text=True, timeout=600, env=e, errors="replace")
    except subprocess.TimeoutExpired:
        return {"vclass": "INFRA-TIMEOUT", "msg": "replay did not finish"}
    for line in r.stdout.splitlines():
        if line.startswith("VIOL "):
            return parse_viol(line)
    if r.returncode == 77:
        return {"vclass": "ASAN", "msg": r.stderr[-500:]}
    return None

def minimise(job, viol, tier, budget_s):
    """plan shrinking by seeded search, then schedule ddmin on the final replay file.
    Returns the path of the minimised replay file (or the original one)."""
    path = viol.get("replay", "-")
    if path == "-" or not os.path.exists(path):
        return path
    t_end = time.time() + budget_s
    try:
        rp = json.load(open(path))
    except Exception:
        return path
    vclass = viol["vclass"]
    names, params = rp.get("param_names", []), list(rp.get("params", []))
    shrink = job.spec.get("shrink", {})
    tmpdir = tempfile.mkdtemp(prefix="mvmin-", dir=os.environ.get("TMPDIR", "/tmp"))
    best_path = path
    try:
        def try_params(cand):
            sets = dict(zip(names, cand))
            for s in range(3):
                if time.time() > t_end:
                    return None
                cmd = job.cmd(1000 + s, 0, 150, tier, tmpdir, None, 10, sets)
                try:
                    r = subprocess.run(cmd, stdout=subprocess.PIPE, stderr=subprocess.PIPE, text=True, timeout=60, errors="replace")
                except subprocess.TimeoutExpired:
                    continue
                for line in r.stdout.splitlines():
                    if line.startswith("VIOL "):
                        v = parse_viol(line)
                        if v and v["vclass"] == vclass and v.get("replay", "-") != "-":
                            return v["replay"]
            return None
        changed = True
        while changed and time.time() < t_end and names:
            changed = False
            for i, n in enumerate(names):
                lo = shrink.get(n)
                if lo is None or params[i] == lo:
                    continue
                for cand_v in sorted(set([lo, (params[i] + lo) // 2, params[i] - 1]), key=lambda v: abs(v - lo)):
                    if cand_v == params[i] or (cand_v < lo and params[i] > lo):
                        continue
                    cand = list(params)
                    cand[i] = cand_v
                    p2 = try_params(cand)
                    if p2:
                        params = cand
                        best_path = p2
                        changed = True
                        break
                if time.time() > t_end:
                    break
        # liveness verdicts depend on the fairness of the whole schedule: never cut decisions out of them
        if vclass.startswith("HANG") or vclass == "STUCK":
            final = os.path.join(REPLAYS, "tmp-min-%d-%d.json" % (os.getpid(), int(time.time() * 1000000) % 100000000))
            shutil.copy(best_path, final)
            return final
        # schedule ddmin: drop runs of the RLE (the previous worker simply keeps running)
        rp = json.load(open(best_path))
        rle = rp.get("sched_rle", [])
        pairs = [(rle[i], rle[i + 1]) for i in range(0, len(rle) - 1, 2)]
        work = os.path.join(tmpdir, "cand.json")
        def test_pairs(ps):
            r2 = dict(rp)
            flat = []
            for w, c in ps:
                if flat and flat[-2] == w:
                    flat[-1] += c
                else:
                    flat += [w, c]
            r2["sched_rle"] = flat
            json.dump(r2, open(work, "w"))
            v = replay_once(job.bin, work)
            return v is not None and v.get("vclass") == vclass
        n = 2
        while len(pairs) >= 2 and time.time() < t_end:
            size = max(1, len(pairs) // n)
            reduced = False
            for i in range(0, len(pairs), size):
                cand = pairs[:i] + pairs[i + size:]
                if cand and test_pairs(cand):
                    pairs = cand
                    n = max(n - 1, 2)
                    reduced = True
                    break
                if time.time() > t_end:
                    break
            if not reduced:
                if size == 1:
                    break
                n = min(n * 2, len(pairs))
        flat = []
        for w, c in pairs:
            if flat and flat[-2] == w:
                flat[-1] += c
            else:
                flat += [w, c]
        rp["sched_rle"] = flat
        rp["minimised"] = True
        out = os.path.join(tmpdir, "final.json")
        json.dump(rp, open(out, "w"), indent=0)
        v = replay_once(job.bin, out)
        final = os.path.join(REPLAYS, "tmp-min-%d-%d.json" % (os.getpid(), int(time.time() * 1000000) % 100000000))
        if v is not None and v.get("vclass") == vclass:
            shutil.copy(out, final)
        else:
            shutil.copy(best_path, final)     # best_path may live in the temporary directory removed below
        return final
    except Exception as e:
        log("minimisation failed (%s); keeping the original replay file" % e)
        return path
    finally:
        shutil.rmtree(tmpdir, ignore_errors=True)

def check_property(prop, tier, seed):
    t0 = time.time()
    P = PROPS[prop]
    os.makedirs(REPLAYS, exist_ok=True)
    os.makedirs(EVID, exist_ok=True)
    flavours = sorted(set(j.get("flavour", "O2") for j in P["jobs"]))
    bdirs = {}
    for fl in flavours:
        try:
            bdirs[fl] = B.build(fl)
        except Exception as e:
            log("BUILD FAILED (%s): %s" % (fl, e))
            return 2
    t_build = time.time() - t0
    budget = P.get("budget", {}).get(tier, 25 if tier == "quick" else 240)
    budget = float(os.environ.get("VERIF_BUDGET_S", budget))
    jobs = [Job(j, bdirs) for j in P["jobs"] if tier in j.get("tiers", ("quick", "thorough"))]
    tmpdir = tempfile.mkdtemp(prefix="mvchk-%s-" % prop, dir=os.environ.get("TMPDIR", "/tmp"))
    known = load_known()
    try:
        deadline = time.time() + budget
        total_w = sum(j.weight for j in jobs)
        threads = []
        # distribute the NCPU worker slots over the jobs by weight (at least one each)
        slots = []
        for j in jobs:
            slots.append(max(1, int(round(NCPU * j.weight / total_w))))
        while sum(slots) > max(NCPU, len(jobs)):
            slots[slots.index(max(slots))] -= 1
        wid = 0
        for j, n in zip(jobs, slots):
            chunk = j.spec.get("chunk", 400 if tier == "quick" else 2000)
            if j.py:
                th = threading.Thread(target=run_py, args=(j, seed, tier, deadline))
                th.start()
                threads.append(th)
                continue
            for _ in range(n):
                th = threading.Thread(target=run_stream, args=(j, seed, tier, tmpdir, deadline, chunk, None, wid, 4))
                th.start()
                threads.append(th)
                wid += 1
        for th in threads:
            th.join()
        # ---- aggregate ----
        agg = {"runs": 0, "steps": 0, "switches": 0, "preemptions": 0, "stalls": 0, "spins": 0, "rand_draws": 0,
               "clock_reads": 0, "clock_zero": 0, "clock_jumps": 0, "virt_ns": 0, "poisoned_stacks": 0,
               "poisoned_results": 0, "switch_pairs_sum": 0, "drained": 0, "nontrivial_runs": 0, "tsc_reads": 0, "abandoned_slow": 0}
        sites, counters, strategies, workers_hist, per_job, extra = {}, {}, [0] * 8, {}, [], {}
        for j in jobs:
            jr = 0
            for st in j.stats:
                jr += st["done"]
                agg["runs"] += st["done"]
                agg["nontrivial_runs"] += st.get("nontrivial", 0)
                for k in ("steps", "switches", "preemptions", "stalls", "spins", "rand_draws", "clock_reads", "clock_zero",
                          "clock_jumps", "virt_ns", "poisoned_stacks", "poisoned_results", "switch_pairs_sum", "drained", "tsc_reads", "abandoned_slow"):
                    agg[k] += st.get(k, 0)
                for k, v in st.get("sites", {}).items():
                    sites[k] = sites.get(k, 0) + v
                for k, v in st.get("counters", {}).items():
                    counters[k] = counters.get(k, 0) + v
                for i, v in enumerate(st.get("strategies", [])):
                    strategies[i] += v
                for k, v in st.get("workers_hist", {}).items():
                    workers_hist[k] = workers_hist.get(k, 0) + v
                for k, v in st.items():
                    if k.startswith("xb_") and isinstance(v, str):
                        extra[k] = extra.get(k, 0) | int(v, 16)
                    elif k.startswith("x_") and isinstance(v, (int, float)):
                        extra[k] = extra.get(k, 0) + v
                    elif k.startswith("x_") and isinstance(v, dict):
                        d = extra.setdefault(k, {})
                        for kk, vv in v.items():
                            d[kk] = d.get(kk, 0) + vv
            per_job.append({"binary": j.spec["bin"], "class": j.cls, "flavour": j.flavour, "sets": j.sets, "runs": jr})
        # distinct signatures among non-trivial runs
        distinct = set()
        distinct_all = set()
        for f in os.listdir(tmpdir):
            if f.startswith("sig-"):
                a = array.array("Q")
                sz = os.path.getsize(os.path.join(tmpdir, f))
                with open(os.path.join(tmpdir, f), "rb") as fh:
                    a.fromfile(fh, sz // 8)
                for i in range(0, len(a) - 1, 2):
                    sig, w = a[i], a[i + 1]
                    pre, flags = w & 0xffffffff, w >> 32
                    distinct_all.add(sig)
                    if pre > 0 and (flags & 1):
                        distinct.add(sig)
        # ---- violations ----
        viols = [v for j in jobs for v in j.viols]
        reported, known_hits, infra = [], [], []
        seen_classes = set()
        for v in viols:
            vc = v.get("vclass", "?")
            if vc.startswith("INFRA"):
                infra.append(v)
                continue
            kf = match_known(known, prop, v)
            if kf:
                known_hits.append((kf, v))
                continue
            if vc in seen_classes:
                continue
            seen_classes.add(vc)
            reported.append(v)
        rc = 0
        out_lines = []
        final_viol = []
        for v in reported:
            job = v.get("job")
            path = v.get("replay", "-")
            vp = viol_property(prop, v)
            if path != "-" and os.path.exists(path) and job is not None:
                # gate: must reproduce twice in fresh processes
                r1 = replay_once(job.bin, path, job.env)
                r2 = replay_once(job.bin, path, job.env)
                if not (r1 and r2 and r1.get("vclass") == v["vclass"] and r2.get("vclass") == v["vclass"]):
                    # The single-run replay differs.  A library that corrupts memory can behave differently
                    # depending on what ran before in the same process, so fall back to replaying the batch
                    # segment that produced it (same process history, address randomisation is off).
                    bs = int(v.get("batch_start", v.get("run", 0)))
                    cmd = job.cmd(v.get("seed", seed), bs, int(v.get("run", bs)) - bs + 1, tier, REPLAYS, None, 300)
                    def rerun():
                        try:
                            rr = subprocess.run(cmd, stdout=subprocess.PIPE, stderr=subprocess.PIPE, text=True, timeout=600, errors="replace")
                        except subprocess.TimeoutExpired:
                            return None
                        for line in rr.stdout.splitlines():
                            if line.startswith("VIOL "):
                                return parse_viol(line)
                        return None
                    b1, b2 = rerun(), rerun()
                    if b1 and b2 and b1.get("vclass") == b2.get("vclass") and b1.get("run") == b2.get("run"):
                        tag = "%s-%s-%s" % (vp, re.sub(r"[^A-Za-z0-9]+", "_", b1["vclass"]), b1.get("run", "0"))
                        final = os.path.join(REPLAYS, tag + "-batch.json")
                        json.dump({"format": "mvsim-cmd-1", "property": vp, "vclass": b1["vclass"], "msg": b1.get("msg", ""), "cmd": cmd,
                                   "note": "the violation depends on the in-process history (memory corruption); replay = the batch segment"}, open(final, "w"), indent=1)
                        out_lines.append("VIOLATION property=%s replay=%s" % (vp, final))
                        log("  class=%s seed=%s run=%s (batch replay): %s" % (b1["vclass"], v.get("seed"), b1.get("run"), b1.get("msg", "")[:300]))
                        final_viol.append({"property": vp, "class": b1["vclass"], "msg": b1.get("msg", "")[:500], "replay": final, "run": b1.get("run")})
                        rc = 1
                        continue
                    log("violation %s (run %s) did NOT reproduce, neither from its replay file (%s / %s) nor from its batch segment: infrastructure error" % (v["vclass"], v.get("run"), r1 and r1.get("vclass"), r2 and r2.get("vclass")))
                    infra.append(v)
                    continue
                mpath = minimise(job, v, tier, 20 if tier == "quick" else 90)
                tag = "%s-%s-%s" % (vp, re.sub(r"[^A-Za-z0-9]+", "_", v["vclass"]), v.get("run", "0"))
                final = os.path.join(REPLAYS, tag + ".json")
                try:
                    shutil.copy(mpath, final)
                    if os.path.basename(mpath).startswith("tmp-min-"):
                        os.remove(mpath)
                except Exception:
                    try:
                        shutil.copy(path, final)      # never report a path inside the temporary directory
                    except Exception:
                        final = path
                try:
                    # the replay file names the build flavour and the property: `check.py --replay` needs both
                    rpj = json.load(open(final))
                    rpj["flavour"] = job.flavour
                    rpj["property"] = vp
                    json.dump(rpj, open(final, "w"), indent=0)
                except Exception as e:
                    log("  (could not annotate %s with flavour/property: %s)" % (final, e))
                out_lines.append("VIOLATION property=%s replay=%s" % (vp, final))
                log("  class=%s seed=%s run=%s: %s" % (v["vclass"], v.get("seed"), v.get("run"), v.get("msg", "")[:300]))
                final_viol.append({"property": vp, "class": v["vclass"], "msg": v.get("msg", "")[:500], "replay": final, "run": v.get("run")})
            else:
                # no replay file (e.g. sanitizer abort): report with the command that reproduces it
                tag = "%s-%s-%s" % (vp, re.sub(r"[^A-Za-z0-9]+", "_", v["vclass"]), v.get("run", "0"))
                final = os.path.join(REPLAYS, tag + ".json")
                if "envcase" in v:
                    json.dump({"format": "mvsim-env-1", "property": vp, "vclass": v["vclass"], "msg": v.get("msg", ""), "envcase": v["envcase"]}, open(final, "w"), indent=1)
                else:
                    json.dump({"format": "mvsim-cmd-1", "property": vp, "vclass": v["vclass"], "msg": v.get("msg", ""),
                               "cmd": job.cmd(v.get("seed", seed), int(v.get("run", 0)), 1, tier, REPLAYS, None, 60) if job else None}, open(final, "w"), indent=1)
                out_lines.append("VIOLATION property=%s replay=%s" % (vp, final))
                final_viol.append({"property": vp, "class": v["vclass"], "msg": v.get("msg", "")[:500], "replay": final})
            rc = 1
        shown = set()
        for kf, v in known_hits:
            if kf["id"] in shown:
                continue
            shown.add(kf["id"])
            print("KNOWN-FINDING: property=%s %s" % (kf.get("property", prop), kf["what"]))
        if infra and rc == 0:
            for v in infra[:3]:
                log("INFRASTRUCTURE ERROR: %s: %s" % (v.get("vclass"), v.get("msg", "")[:400]))
            rc = 2
        # ---- samples ----
        samples = []
        for j in jobs:
            for st in j.stats:
                samples += st.get("samples", [])[:2]
        for j in [j for j in jobs if not j.py][:3]:
            try:
                r = subprocess.run(j.cmd(seed, 0, 2, tier, tmpdir, None, 20) + ["--dump-plan", "--verbose"], stdout=subprocess.PIPE,
                                   stderr=subprocess.PIPE, text=True, timeout=60, errors="replace")
                plan = None
                for line in r.stdout.splitlines():
                    if line.startswith("PLAN "):
                        plan = line[5:700]
                    elif line.startswith("RUN ") and plan:
                        smp = {"plan": plan, "execution": line[4:], "flavour": j.flavour}
                        if not any(x.get("plan") == smp["plan"] and x.get("execution") == smp["execution"] for x in samples):
                            samples.append(smp)
                        plan = None
            except Exception:
                pass
        if not samples:
            samples = [{"note": "no sample could be produced"}]
        for k in list(extra):
            if k.startswith("xb_"):
                extra["x_" + k[3:] + "_distinct_count"] = bin(extra.pop(k)).count("1")
        wall = time.time() - t0
        run_wall = max(1e-6, wall - t_build)
        site_named = {SITE_NAMES.get(int(k), k): v for k, v in sites.items()}
        relevant = P.get("relevant_probes", [])
        zero_probes = [n for n in relevant if site_named.get(n, 0) == 0]
        ev = {
            "property_id": prop, "tier": tier, "seed": seed, "level": "exploration",
            "coverage": {
                "evaluations": agg["runs"],
                "distinct_nontrivial": len(distinct),
                "rule": P.get("rule", "each evaluation is one simulated execution (seeded plan + seeded schedule); it is non-trivial when at least one "
                              "cross-worker preemption happened AND a probe relevant to the property fired; distinct = distinct FNV signatures of the "
                              "complete (worker, hook-site) event sequence among the non-trivial runs"),
                "samples": samples[:6],
                "distinct_signatures_all_runs": len(distinct_all),
                "simulated_steps": agg["steps"],
                "runs_per_hour": int(agg["runs"] / run_wall * 3600),
                "simulated_virtual_seconds": agg["virt_ns"] / 1e9,
                "faults_fired": {"preemptions": agg["preemptions"], "worker_switches": agg["switches"], "stalls_ge_100_steps": agg["stalls"],
                                 "clock_reads": agg["clock_reads"], "clock_zero_increments": agg["clock_zero"], "clock_forward_jumps": agg["clock_jumps"],
                                 "poisoned_released_stacks": agg["poisoned_stacks"], "poisoned_released_results": agg["poisoned_results"],
                                 "seeded_random_draws": agg["rand_draws"],
                                 "buggified_run_queue_trylock_failures": site_named.get("bug_wsq_trylock", 0), **counters},
                "distinct_preemption_site_pairs_summed_over_runs": agg["switch_pairs_sum"],
                "fair_drain_started_runs": agg["drained"],
                "virtual_cycle_counter_reads": agg["tsc_reads"],
                "runs_abandoned_for_real_cpu_time_without_verdict": agg["abandoned_slow"],
                "strategies_hist": dict(zip(["uniform", "sticky", "pct", "stall", "round_robin"], strategies)),
                "workers_hist": workers_hist,
                "probe_hits": site_named,
                "relevant_probes_at_zero": zero_probes,
                "jobs": per_job,
                "components": P.get("components", {"real": "all of /repo/src reachable from the public API (compiled from the working tree with -DMYTH_VERIF)",
                                                    "stubbed": "OS thread creation/join of workers (coroutines), worker start-up barrier, RNG (myth_random), clock (hr_gettime)"}),
                "known_findings_hit": [kf["id"] for kf, _ in known_hits],
                "violations": final_viol,
                **extra,
            },
            "assumptions": P.get("assumptions", []) + [
                "sequential consistency at hook granularity (x86-TSO store buffering only in the wsq_tso unit harness)",
                "hooks are behaviour-neutral (guard off: baseline suite; guard on: same algorithm text)",
                "seeded sampling, not exhaustive: a clean batch is evidence, not proof"],
            "wall_s": round(wall, 2),
            "violations": len(final_viol),
        }
        json.dump(ev, open(os.path.join(EVID, prop + ".json"), "w"), indent=1)
        for l in out_lines:
            print(l)
        log("%s %s: %d runs, %d distinct non-trivial, %d violation(s), %d known-finding hit(s), %.1fs (build %.1fs)" %
            (prop, tier, agg["runs"], len(distinct), len(final_viol), len(known_hits), wall, t_build))
        if agg["runs"] == 0 and rc == 0:
            log("no simulated run completed")
            rc = 2
        return rc
    finally:
        shutil.rmtree(tmpdir, ignore_errors=True)

def do_replay(path):
    rp = json.load(open(path))
    if rp.get("format") == "mvsim-env-1":
        bdir = B.build("O2")
        env = {k: v for k, v in os.environ.items() if not k.startswith("MYTH_")}
        env["MYTH_BIND_WORKERS"] = "0"
        env.update(rp["envcase"]["env"])
        try:
            r = subprocess.run([os.path.join(bdir, "mvh"), "--envprobe", str(rp["envcase"]["expect_nworkers"])], env=env, stdout=subprocess.PIPE, stderr=subprocess.PIPE, text=True, timeout=120, errors="replace")
            ok = r.returncode == 0 and "ENVPROBE-OK" in r.stdout
            print((r.stdout + r.stderr)[-1500:])
        except subprocess.TimeoutExpired:
            ok = False
            print("did not finish within 120 s")
        if not ok:
            print("VIOLATION property=%s replay=%s" % (rp.get("property", "C15"), path))
        return 0 if ok else 1
    if rp.get("format") == "mvsim-cmd-1":
        cmd = rp["cmd"]
        fl = "O2"
        for f in B.FLAVOURS:
            if ("/%s-" % f) in cmd[0]:
                fl = f
        bdir = B.build(fl)
        cmd[0] = os.path.join(bdir, os.path.basename(cmd[0]))
        r = subprocess.run(cmd, stdout=subprocess.PIPE, stderr=subprocess.PIPE, text=True, errors="replace")
        print(r.stdout[-3000:])
        bad = "VIOL " in r.stdout or r.returncode not in (0,)
        if bad:
            print("VIOLATION property=%s replay=%s" % (rp.get("property", "?"), path))
        return 1 if bad else 0
    harness = rp.get("harness", "mvh")
    fl = rp.get("flavour", "O2")
    bdir = B.build(fl)
    binpath = os.path.join(bdir, harness)
    v = replay_once(binpath, path)
    if v:
        prop = viol_property(rp.get("property", "?"), v)
        print("reproduced: class=%s %s" % (v["vclass"], v.get("msg", "")[:500]))
        print("VIOLATION property=%s replay=%s" % (prop, path))
        return 1
    print("replay finished without violation")
    return 0

def main():
    ap = argparse.ArgumentParser()
    ap.add_argument("--property")
    ap.add_argument("--tier", default=os.environ.get("VERIF_TIER", "quick"))
    ap.add_argument("--replay")
    a = ap.parse_args()
    if a.replay:
        sys.exit(do_replay(a.replay))
    if a.property not in PROPS:
        log("unknown property", a.property)
        sys.exit(2)
    seed = int(os.environ.get("VERIF_SEED", "1"))
    sys.exit(check_property(a.property, a.tier, seed))

if __name__ == "__main__":
    main()
